#!/venv/bin/python
"""CLI of the Bob property checks.

  run.py <Cnn> --tier quick|thorough      exit 0 held / 1 VIOLATION / 2 harness error
  run.py <Cnn> --replay <file>            re-execute one saved case without Hypothesis
"""
import os, sys, glob, argparse

HERE = os.path.dirname(os.path.abspath(__file__))

def main():
    ap = argparse.ArgumentParser()
    ap.add_argument("prop")
    ap.add_argument("--tier", default=os.environ.get("VERIF_TIER", "quick"),
                    choices=["quick", "thorough"])
    ap.add_argument("--replay")
    ap.add_argument("--shards", type=int)
    ap.add_argument("--time", type=float, help="override per-shard wall-clock guard (s)")
    args = ap.parse_args()

    if os.environ.get("PYTHONHASHSEED") != "0":
        os.environ["PYTHONHASHSEED"] = "0"
        os.execv(sys.executable, [sys.executable] + sys.argv)

    os.chdir(HERE)
    sys.path.insert(0, HERE)
    import vlib
    vlib.use_repo()
    vlib.fast_arena()
    from vlib import runner

    prop = args.prop.upper()
    mods = glob.glob(os.path.join(HERE, "checks", prop.lower() + "_*.py"))
    if len(mods) != 1:
        print("no unique check module for %s" % prop, file=sys.stderr)
        return 2
    modname = "checks." + os.path.basename(mods[0])[:-3]
    try:
        seed = int(os.environ.get("VERIF_SEED", "1"))
    except ValueError:
        seed = 1
    try:
        if args.replay:
            return runner.replay_main(modname, args.replay)
        return runner.main(modname, args.tier, seed, args.shards, args.time)
    except KeyboardInterrupt:
        raise
    except Exception:
        import traceback
        traceback.print_exc()
        return 2

if __name__ == "__main__":
    sys.exit(main())
