"""Shard driver, counters, known-finding handling, replay writer, evidence merge.

A check module (checks/cNN_*.py) provides:
  PROP, LEVEL, RULE                     strings
  shard(ctx)                            run generated cases; uses ctx.record / ctx.fail
  replay(ctx, case)                     re-execute one saved case (raises Violation)
  FINDINGS = {finding_id: matcher}      matcher(signature, case) -> bool
  ASSUMPTIONS = [...]                   optional
"""
import os, sys, json, time, hashlib, traceback, shutil, collections, importlib
import multiprocessing

from . import VERIF_DIR

NSHARDS_DEFAULT = 16


class Violation(Exception):
    def __init__(self, signature, detail, case):
        super().__init__("%s: %s" % (signature, detail))
        self.signature = signature
        self.detail = detail
        self.case = case


class HarnessError(Exception):
    pass


def jhash(obj):
    return hashlib.blake2b(json.dumps(obj, sort_keys=True, default=repr).encode(),
                           digest_size=8).hexdigest()


def load_known():
    p = os.path.join(VERIF_DIR, "known_findings.json")
    if not os.path.exists(p):
        return {"findings": [], "fixed": []}
    with open(p) as f:
        return json.load(f)


class Ctx:
    def __init__(self, mod, tier, seed, shard, nshards, scratch, time_budget):
        self.mod = mod
        self.prop = mod.PROP
        self.tier = tier
        self.seed = seed
        self.shard = shard
        self.nshards = nshards
        self.scratch = scratch
        self.t0 = time.time()
        self.deadline = self.t0 + time_budget
        self.evaluations = 0
        self.nontrivial = set()
        self.labels = collections.Counter()
        self.samples = []
        self.excluded = collections.Counter()
        self.inconclusive = 0
        self.suppressed = set()
        self.suppressed_hits = collections.Counter()
        self.violations = []
        self.extra = {}
        self.in_shrink = False
        known = load_known()
        self.active_findings = [f["id"] for f in known.get("findings", [])
                                if f["property"] == self.prop]
        self._tmpn = 0

    # -- seeds ------------------------------------------------------------------
    def hseed(self, salt=""):
        h = hashlib.sha256(("%d/%s/%d/%s" % (self.seed, self.prop, self.shard, salt)).encode())
        return int.from_bytes(h.digest()[:8], "big")

    def quick(self):
        return self.tier == "quick"

    def n(self, quick, thorough):
        """per-shard case count from a total budget"""
        tot = quick if self.tier == "quick" else thorough
        return max(1, tot // self.nshards)

    def out_of_time(self):
        return time.time() > self.deadline

    # -- bookkeeping ------------------------------------------------------------
    def record(self, key, nontrivial, labels=(), sample=None):
        self.evaluations += 1
        if nontrivial:
            self.nontrivial.add(key if isinstance(key, str) else jhash(key))
        for l in labels:
            self.labels[l] += 1
        if sample is not None and len(self.samples) < 3 and (nontrivial or not self.samples):
            self.samples.append(sample)

    def label(self, *ls):
        for l in ls:
            self.labels[l] += 1

    def tmpdir(self, name=None):
        self._tmpn += 1
        d = os.path.join(self.scratch, name or ("c%d" % self._tmpn))
        if os.path.exists(d):
            shutil.rmtree(d, ignore_errors=True)
        os.makedirs(d)
        return d

    def known(self, signature, case, detail=""):
        """id of the listed known finding that this failure matches, else None"""
        for fid in self.active_findings:
            m = self.mod.FINDINGS.get(fid)
            if m is not None and m(signature, case, str(detail)):
                return fid
        return None

    def fail(self, signature, detail, case):
        """Oracle failed.  Known finding / already reported signature -> counted,
        otherwise raises Violation (which Hypothesis shrinks)."""
        for fid in self.active_findings:
            m = self.mod.FINDINGS.get(fid)
            if m is not None and m(signature, case, str(detail)):
                self.excluded[fid] += 1
                return
        if signature in self.suppressed:
            self.suppressed_hits[signature] += 1
            return
        raise Violation(signature, detail, case)

    def add_violation(self, v):
        d = os.path.join(os.environ.get("VERIF_REPLAY_DIR") or os.path.join(VERIF_DIR, "replay"), self.prop)
        os.makedirs(d, exist_ok=True)
        sig = "".join(c if c.isalnum() or c in "-_" else "_" for c in v.signature)[:60]
        path = os.path.join(d, "%s-%s.json" % (sig, jhash(v.case)))
        with open(path, "w") as f:
            json.dump({"property": self.prop, "signature": v.signature,
                       "detail": str(v.detail)[:4000], "case": v.case}, f, indent=1,
                      default=repr)
        self.violations.append({"signature": v.signature, "detail": str(v.detail)[:2000],
                                "replay": path})
        self.suppressed.add(v.signature)

    def result(self):
        return {"evaluations": self.evaluations, "nontrivial": sorted(self.nontrivial),
                "labels": dict(self.labels), "samples": self.samples,
                "excluded": dict(self.excluded), "inconclusive": self.inconclusive,
                "suppressed_hits": dict(self.suppressed_hits),
                "violations": self.violations, "extra": self.extra,
                "wall": time.time() - self.t0}


def ddmin(ctx, v, fn, keys, budget=60.0):
    """Bounded greedy delta debugging on the list-valued entries `keys` of a dict case: drop
    elements as long as the violation keeps its signature.  Used where cases cost ~1 s and
    Hypothesis' own shrinker cannot be bounded."""
    case = v.case
    if not isinstance(case, dict):
        return v
    t_end = time.time() + budget
    best = v
    def still_fails(c):
        try:
            fn(c)
        except Violation as w:
            if w.signature == v.signature:
                return w
        except Exception:
            return None
        return None
    for key in keys:
        lst = list(best.case.get(key) or [])
        chunk = max(1, len(lst) // 2)
        while chunk >= 1 and time.time() < t_end:
            i = 0
            progressed = False
            while i < len(lst) and time.time() < t_end:
                cand = lst[:i] + lst[i + chunk:]
                if key == "artifacts":        # elements refer to each other by index: only drop a tail
                    cand = lst[:len(lst) - chunk] if i == 0 else None
                if cand is None or len(cand) == len(lst):
                    break
                c2 = dict(best.case); c2[key] = cand
                w = still_fails(c2)
                if w is not None:
                    best = w; lst = cand; progressed = True
                else:
                    i += chunk
            if not progressed:
                chunk //= 2
    return best


def run_hypothesis(ctx, strategy, fn, max_examples, shrink=True, salt="", max_rootcauses=3,
                   stateful=None, step_count=30, minimize=None):
    """Run fn(case) over strategy with the project's settings; collect up to
    max_rootcauses violations with different signatures (each is then suppressed so
    that the search continues behind it)."""
    import hypothesis
    from hypothesis import given, settings, seed, Phase, HealthCheck
    phases = [Phase.explicit, Phase.generate]
    if shrink:
        phases.append(Phase.shrink)
    remaining = max_examples
    t_start = time.time()
    batch_no = 0
    found = 0
    batch = getattr(ctx.mod, "BATCH", 400)
    while remaining > 0 and not ctx.out_of_time() and found < max_rootcauses:
        n = min(batch, remaining)
        batch_no += 1
        st = settings(max_examples=n, database=None, deadline=None,
                      derandomize=False, report_multiple_bugs=False, phases=phases,
                      suppress_health_check=list(HealthCheck), print_blob=False,
                      stateful_step_count=step_count)
        hs = ctx.hseed("%s/%d" % (salt, batch_no))
        try:
            if stateful is not None:
                from hypothesis.stateful import run_state_machine_as_test
                run_state_machine_as_test(seed(hs)(stateful), settings=st)
            else:
                @seed(hs)
                @st
                @given(strategy)
                def t(case):
                    fn(case)
                t()
            remaining -= n
        except Violation as v:
            if minimize:
                saved = (ctx.evaluations, set(ctx.nontrivial), ctx.labels.copy(), list(ctx.samples))
                try:
                    v = ddmin(ctx, v, fn, minimize)
                except Violation as w:
                    v = w
                ctx.evaluations, ctx.nontrivial, ctx.labels, ctx.samples = saved
            ctx.add_violation(v)
            found += 1
            remaining -= n
        except hypothesis.errors.Flaky as e:
            # a case that fails once and passes on re-execution: report as harness
            # trouble, never as a violation
            ctx.inconclusive += 1
            ctx.extra.setdefault("flaky", []).append(str(e)[:500])
            remaining -= n
    ctx.extra["max_layer_seconds_" + (salt or "main")] = round(time.time() - t_start, 1)
    if remaining > 0 and found < max_rootcauses:
        ctx.extra["cases_not_run_time_guard"] = ctx.extra.get("cases_not_run_time_guard", 0) + remaining


def _shard_main(modname, tier, seed, shard, nshards, scratch, time_budget, outpath):
    ctx = None
    try:
        os.makedirs(scratch, exist_ok=True)
        mod = importlib.import_module(modname)
        ctx = Ctx(mod, tier, seed, shard, nshards, scratch, time_budget)
        try:
            mod.shard(ctx)
        except Violation as v:
            ctx.add_violation(v)
        res = ctx.result()
        res["ok"] = True
    except BaseException:
        # violations found before the harness broke are still reported
        res = {"ok": False, "error": traceback.format_exc(), "violations": list(ctx.violations) if ctx is not None else []}
    with open(outpath, "w") as f:
        json.dump(res, f, default=repr)
    shutil.rmtree(scratch, ignore_errors=True)
    sys.stdout.flush(); sys.stderr.flush()
    os._exit(0)


def corpus_files(prop):
    d = os.path.join(VERIF_DIR, "corpus", prop)
    if not os.path.isdir(d):
        return []
    return [os.path.join(d, n) for n in sorted(os.listdir(d)) if n.endswith(".json")]


def _replay_one(modname, tier, seed, scratch, path):
    """-> None (passed) or (signature, detail)"""
    mod = importlib.import_module(modname)
    ctx = Ctx(mod, tier, seed, 0, 1, scratch, 3600)
    ctx.active_findings = []          # replay decides on its own, nothing is excluded
    os.makedirs(ctx.scratch, exist_ok=True)
    with open(path) as f:
        ent = json.load(f)
    try:
        mod.replay(ctx, ent["case"])
        return None
    except Violation as v:
        return (v.signature, str(v.detail))

def run_corpus(mod, tier, seed, scratch):
    """Replay saved regression inputs and the canonical instance of each known finding.
    Returns (lines, violations, n_replayed)."""
    known = load_known()
    status = {f["id"]: "finding" for f in known.get("findings", [])}
    what = {f["id"]: f.get("what", "") for f in known.get("findings", [])}
    lines, viols, n = [], [], 0
    files = corpus_files(mod.PROP)
    results = {}
    if len(files) > 2:
        # replays are independent: run them side by side (fresh forked workers, one scratch directory each)
        import concurrent.futures, multiprocessing
        with concurrent.futures.ProcessPoolExecutor(max_workers=min(8, len(files)),
                                                    mp_context=multiprocessing.get_context("fork")) as ex:
            futs = {path: ex.submit(_replay_one, mod.__name__, tier, seed, os.path.join(scratch, "corpus%d" % i), path)
                    for i, path in enumerate(files)}
            for path, fu in futs.items():
                results[path] = fu.result()
    else:
        for i, path in enumerate(files):
            results[path] = _replay_one(mod.__name__, tier, seed, os.path.join(scratch, "corpus%d" % i), path)
    for path in files:
        with open(path) as f:
            ent = json.load(f)
        n += 1
        expect = ent.get("expect", "pass")
        r = results[path]
        failed = None if r is None else Violation(r[0], r[1], ent["case"])
        if expect.startswith("known:"):
            fid = expect[6:]
            if status.get(fid) == "finding":
                if failed is not None:
                    lines.append("KNOWN-FINDING: property=%s %s [%s] (%s)" %
                                 (mod.PROP, what.get(fid, fid), fid, os.path.relpath(path, VERIF_DIR)))
                else:
                    lines.append("note: listed finding %s no longer reproduces on this tree" % fid)
                continue
            # not (or no longer) listed as an open finding: a fixed entry suppresses nothing
        if failed is not None:
            viols.append({"signature": failed.signature, "detail": str(failed.detail)[:2000],
                          "replay": path})
    return lines, viols, n


def main(modname, tier, seed, nshards=None, time_budget=None):
    t0 = time.time()
    mod = importlib.import_module(modname)
    nshards = nshards or getattr(mod, "NSHARDS", NSHARDS_DEFAULT)
    if time_budget is None:
        tb = getattr(mod, "TIME_BUDGET", {"quick": 240, "thorough": 1500})
        time_budget = tb[tier]
    base = os.path.join(os.environ.get("VERIF_TMP", "/var/tmp"), "verif-%s-%d" % (mod.PROP, os.getpid()))
    shutil.rmtree(base, ignore_errors=True)
    os.makedirs(base)
    evpath = os.path.join(os.environ.get("VERIF_EVIDENCE_DIR") or os.path.join(VERIF_DIR, "evidence"), mod.PROP + ".json")
    os.makedirs(os.path.dirname(evpath), exist_ok=True)
    shutil.rmtree(os.path.join(os.environ.get("VERIF_REPLAY_DIR") or os.path.join(VERIF_DIR, "replay"), mod.PROP), ignore_errors=True)
    try:
        lines, viols, ncorpus = run_corpus(mod, tier, seed, base)
        for l in lines:
            print(l)
        sys.stdout.flush()
        procs = []
        mp = multiprocessing.get_context("fork")
        for k in range(nshards):
            out = os.path.join(base, "res%d.json" % k)
            p = mp.Process(target=_shard_main, args=(modname, tier, seed, k, nshards,
                           os.path.join(base, "s%d" % k), time_budget, out))
            p.start()
            procs.append((p, out))
        results = []
        errors = []
        partial = []
        for p, out in procs:
            p.join()
            if not os.path.exists(out):
                errors.append("shard died without result (exit %s)" % p.exitcode)
                continue
            with open(out) as f:
                r = json.load(f)
            if not r.get("ok"):
                errors.append(r.get("error"))
                partial += r.get("violations") or []
            else:
                results.append(r)
        if errors:
            print("HARNESS ERROR in %d shard(s):\n%s" % (len(errors), errors[0]), file=sys.stderr)
            found = viols + partial + [v for r in results for v in r["violations"]]
            seen = set()
            for v in found:
                if v["signature"] not in seen:
                    seen.add(v["signature"])
                    print("VIOLATION property=%s replay=%s  # %s: %s" %
                          (mod.PROP, v["replay"], v["signature"], v["detail"].replace("\n", " ")[:300]))
            return 1 if found else 2
        ev = merge(mod, tier, seed, results, viols, ncorpus, time.time() - t0)
        with open(evpath, "w") as f:
            json.dump(ev, f, indent=1, default=repr)
        allv = viols + [v for r in results for v in r["violations"]]
        seen = set()
        for v in allv:
            if v["signature"] in seen:
                continue
            seen.add(v["signature"])
            print("VIOLATION property=%s replay=%s  # %s: %s" %
                  (mod.PROP, v["replay"], v["signature"], v["detail"].replace("\n", " ")[:300]))
        cov = ev["coverage"]
        print("%s %s: %d evaluations, %d distinct non-trivial, excluded_known=%s, inconclusive=%d, %.1fs" %
              (mod.PROP, tier, cov["evaluations"], cov["distinct_nontrivial"],
               cov.get("excluded_known"), cov.get("inconclusive", 0), ev["wall_s"]))
        if allv:
            return 1
        floor = getattr(mod, "NONTRIVIAL_FLOOR", 2)
        if cov["distinct_nontrivial"] < floor:
            print("HARNESS ERROR: only %d non-trivial cases (floor %d)" %
                  (cov["distinct_nontrivial"], floor), file=sys.stderr)
            return 2
        return 0
    finally:
        shutil.rmtree(base, ignore_errors=True)


def merge(mod, tier, seed, results, corpus_viols, ncorpus, wall):
    nontrivial = set()
    labels = collections.Counter()
    excluded = collections.Counter()
    supp = collections.Counter()
    samples = []
    evals = 0
    inconcl = 0
    extra = {}
    nviol = len(corpus_viols)
    for r in results:
        evals += r["evaluations"]
        nontrivial.update(r["nontrivial"])
        labels.update(r["labels"])
        excluded.update(r["excluded"])
        supp.update(r["suppressed_hits"])
        inconcl += r["inconclusive"]
        nviol += len(r["violations"])
        for s in r["samples"]:
            if len(samples) < 5:
                samples.append(s)
        for k, v in r["extra"].items():
            if isinstance(v, (int, float)) and k.startswith("max_"):
                extra[k] = max(extra.get(k, 0), v)
            elif isinstance(v, (int, float)):
                extra[k] = extra.get(k, 0) + v
            elif isinstance(v, list):
                extra.setdefault(k, [])
                extra[k] = (extra[k] + v)[:10]
            else:
                extra[k] = v
    if not samples:
        samples = ["(no case recorded)"]
    cov = {"evaluations": evals + ncorpus, "distinct_nontrivial": len(nontrivial),
           "rule": mod.RULE, "samples": samples,
           "classes": dict(sorted(labels.items())),
           "excluded_known": dict(excluded), "suppressed_after_first_report": dict(supp),
           "inconclusive": inconcl, "corpus_replayed": ncorpus, "shards": len(results)}
    cov.update(extra)
    return {"property_id": mod.PROP, "tier": tier, "seed": seed, "level": mod.LEVEL,
            "coverage": cov, "assumptions": list(getattr(mod, "ASSUMPTIONS", [])),
            "wall_s": round(wall, 2), "violations": nviol}


def replay_main(modname, path):
    mod = importlib.import_module(modname)
    with open(path) as f:
        ent = json.load(f)
    base = os.path.join(os.environ.get("VERIF_TMP", "/var/tmp"), "verif-%s-replay-%d" % (mod.PROP, os.getpid()))
    os.makedirs(base, exist_ok=True)
    ctx = Ctx(mod, "quick", 0, 0, 1, base, 3600)
    ctx.active_findings = []
    try:
        mod.replay(ctx, ent["case"])
        print("replay passed: %s" % path)
        return 0
    except Violation as v:
        print("VIOLATION property=%s replay=%s  # %s: %s" % (mod.PROP, path, v.signature, str(v.detail)[:1000]))
        return 1
    finally:
        shutil.rmtree(base, ignore_errors=True)
