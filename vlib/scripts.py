"""E3 - content-recorder step scripts.

A fragment is an id; its text is recorder(fid, kind).  The first fragment executed in a step
(fragments share one shell) truncates the step's record file and writes everything the step is
*declared* to consume; every fragment then appends its id, so execution order is visible:

  E <var>=<value>        exported variables from the fixed universe V0..V4, TE0, TE1 (strong use only)
  A<i> { ... }           per positional argument: listing + full content of the files in it (recursive, 4 levels of dirs)
  T <tool> { ... }       content of toolid.txt of every declared strong tool t0,t1 (via BOB_TOOL_PATHS)
  H <host fingerprint>   only in fragments of kind "fp" (emulated host dependency)
  F <fid>                one line per executed fragment

Only bash builtins are used (process creation is the bottleneck of this sandbox).  Side
channels through whitelisted host variables (they never enter an id):
  VERIF_EVLOG  event log ("start|end <workspace key>"), VERIF_SW switch directory
  (fail/<key>: write junk + exit 1; kill/<key>: write junk + kill -9 the parent Bob; dur/<key>: seconds to sleep
  first, by a timed read from the FIFO sleep.fifo that nobody writes to),
  VERIF_ROOT project root (to derive the workspace key).
"""

VARS = ["V0", "V1", "V2", "V3", "V4"]          # strong variables (values recorded)
WEAKVARS = ["W0", "W1"]                          # only ever used weakly (never recorded)
TOOLENV = ["TE0", "TE1"]
TOOLS = ["t0", "t1"]                             # strong use
WEAKTOOLS = ["w0"]                               # weak use only
WHITELIST = ["VERIF_ROOT", "VERIF_EVLOG", "VERIF_SW", "VERIF_HOSTFP"]

_COMMON = r'''
if [ -z "${__V-}" ]; then
  __V=1
  __k=${PWD#"${VERIF_ROOT-}"/}; __k=${__k//\//_}
  echo "start $__k" >> "${VERIF_EVLOG:-/dev/null}"
  trap 'echo "end $__k $?" >> "${VERIF_EVLOG:-/dev/null}"; for i in "${_BOB_TMP_CLEANUP[@]-}" ; do if [ -n "$i" ]; then command rm -f "$i"; fi; done' EXIT
  if [ -n "${VERIF_SW-}" ]; then
    if [ -e "$VERIF_SW/dur/$__k" ]; then read __d < "$VERIF_SW/dur/$__k"; read -t "$__d" __x <> "$VERIF_SW/sleep.fifo" || true; fi
    if [ -e "$VERIF_SW/fail/$__k" ]; then echo junk > %(out)s; exit 1; fi
    if [ -e "$VERIF_SW/kill/$__k" ]; then echo junk > %(out)s; kill -9 $PPID; read -t 5 __x < /dev/zero || true; fi
  fi
  : > %(out)s
  for __n in V0 V1 V2 V3 V4 TE0 TE1; do
    if [ -n "${!__n+x}" ]; then echo "E $__n=${!__n}" >> %(out)s; fi
  done
  __rec() {
    local __f __l
    for __f in "$1"/*; do
      if [ -f "$__f" ]; then
        echo "$2file ${__f##*/}" >> %(out)s
        while IFS= read -r __l || [ -n "$__l" ]; do echo "$2 $__l" >> %(out)s; done < "$__f"
      elif [ -d "$__f" ] && [ ${#2} -lt 5 ]; then
        echo "$2dir ${__f##*/}" >> %(out)s
        __rec "$__f" "$2 "
      fi
    done
  }
  __i=0
  for __a in "$@"; do
    __i=$((__i+1))
    echo "A$__i {" >> %(out)s
    __rec "$__a" " "
    echo "}" >> %(out)s
  done
  __oifs=$IFS; IFS=:
  if [ -z "${__NPC-}" ]; then
  for __p in ${LD_LIBRARY_PATH-}; do
    if [ -f "$__p/toolid.txt" ]; then
      echo "L {" >> %(out)s
      %(pathcontent)s
      echo "}" >> %(out)s
    fi
  done
  for __p in $PATH; do
    case $__p in "${VERIF_ROOT-/nonexistent}"/*)
      echo "P {" >> %(out)s
      if [ -f "$__p/toolid.txt" ]; then
        %(pathcontent)s
      fi
      echo "}" >> %(out)s;;
    esac
  done
  fi
  IFS=$__oifs
  for __t in t0 t1; do
    if [ -n "${BOB_TOOL_PATHS[$__t]+x}" ]; then
      echo "T $__t {" >> %(out)s
      if [ -f "${BOB_TOOL_PATHS[$__t]}/toolid.txt" ]; then
        while IFS= read -r __l || [ -n "$__l" ]; do echo "  $__l" >> %(out)s; done < "${BOB_TOOL_PATHS[$__t]}/toolid.txt"
      else
        echo "  (no toolid.txt)" >> %(out)s
      fi
      echo "}" >> %(out)s
    fi
  done
fi
'''

_FP = r'''
if [ -f "${VERIF_HOSTFP-/nonexistent}" ]; then
  while IFS= read -r __l || [ -n "$__l" ]; do echo "H $__l" >> %(out)s; done < "$VERIF_HOSTFP"
fi
'''

_TOOLDIRS = r'''
command mkdir -p bin0 bin1 lib0
for __d in . bin0 bin1 lib0; do
  { echo "toolid $__d of"; while IFS= read -r __l || [ -n "$__l" ]; do echo " $__l"; done < result.txt; } > "$__d/toolid.txt"
done
'''

# what is recorded about the directories found in PATH / LD_LIBRARY_PATH: their content (default), or - kind
# "npc" - only their project relative name (weak tools put directories there whose content is deliberately not tracked
# by Build-Ids)
_PATHCONTENT = 'while IFS= read -r __l || [ -n "$__l" ]; do echo "  $__l" >> %(out)s; done < "$__p/toolid.txt"'
_PATHNAME = 'echo "  ${__p#"${VERIF_ROOT-}"/}" >> %(out)s'

OUTFILE = {"checkout": "src.txt", "build": "result.txt", "package": "result.txt"}

def recorder(fid, step, kind="plain", inc=None):
    """script text of fragment fid for step kind ('checkout'|'build'|'package');
    inc = (mode, name): the fragment includes recipes/inc/<name> as quoted literal ("q") or as file ("f")"""
    out = OUTFILE[step]
    kinds = set(kind.split("+"))
    pc = _PATHCONTENT % {"out": out}
    # kind "npc" (artifact checks): nothing is recorded about the directories in PATH / LD_LIBRARY_PATH - weak tools put
    # directories there that Build-Ids deliberately ignore, and directory names are no tracked input at all
    txt = "# verif fragment %d\n" % fid + ("__NPC=1\n" if "npc" in kinds else "") + (_COMMON % {"out": out, "pathcontent": pc}).lstrip("\n")
    if inc:
        if inc[0] == "q":
            txt += 'echo "I "$<\'inc/%s\'> >> %s\n' % (inc[1], out)
        else:
            txt += 'while IFS= read -r __l || [ -n "$__l" ]; do echo "IF $__l" >> %s; done < $<<inc/%s>>\n' % (out, inc[1])
    if "fp" in kinds:
        txt += (_FP % {"out": out}).lstrip("\n")
    if "nr" in kinds:
        # what makes a package non-relocatable: its result depends on where it was built
        txt += 'echo "R $PWD" >> %s\n' % out
    txt += 'echo "F %d" >> %s\n' % (fid, out)
    if step != "checkout":
        # a file whose *name* depends on the script text: leftovers of another variant become visible
        txt += ': > m%d.txt\n' % fid
    if "tooldirs" in kinds:
        txt += _TOOLDIRS.lstrip("\n")
    return txt

def parse_events(path):
    """event log -> list of (what, key, status|None)"""
    out = []
    try:
        with open(path) as f:
            for line in f:
                p = line.split()
                if len(p) >= 2:
                    out.append((p[0], p[1], p[2] if len(p) > 2 else None))
    except FileNotFoundError:
        pass
    return out
