"""E8 - reference evaluator + renderer for Bob's string substitution language and the
infix condition language.  Written from doc/manual/configuration.rst ("String
substitution", "Boolean properties") and doc/manpages/bobpaths.rst ("Predicate
expressions"); it shares no code with pym/bob/stringparser.py.

A tree is plain JSON data (lists), so that it shrinks, hashes and replays:
  ["lit", text, [prot...]]                 literal text, per-run protection choices
  ["seq", [t...]]                          concatenation
  ["dq",  [t...]]                          "..." double quoted context
  ["var", nametree|str, braces(bool)]      $NAME / ${name}
  ["def", nametree, colon(bool), t]        ${name:-t} / ${name-t}
  ["alt", nametree, colon(bool), t]        ${name:+t} / ${name+t}
  ["fun", fname, [t...]]                   $(fname,arg,...)
"""
import re
from hypothesis import strategies as st

NAME_START = 'ABCDEFGHIJKLMNOPQRSTUVWXYZ_abcdefghijklmnopqrstuvwxyz'
NAME_CHARS = NAME_START + '0123456789'
BASE_SPECIAL = '\\"\'$'

class RefError(Exception):
    """the documented language says: this is an error (Bob must raise ParseError)"""

class Unspecified(Exception):
    """the manual does not define the outcome; the case is skipped (and counted)"""

# ---------------------------------------------------------------------------------------
# reference evaluator

def ascii_lower(s):
    return "".join(chr(ord(c) + 32) if 'A' <= c <= 'Z' else c for c in s)

def truth(s):
    if s != s.strip():
        raise Unspecified("boolean with surrounding whitespace")
    return ascii_lower(s) not in ("", "0", "false")

def tf(b):
    return "true" if b else "false"

def ev(t, env, fctx, nounset=True):
    k = t[0]
    if k == "lit":
        return t[1]
    if k in ("seq", "dq"):
        return "".join(ev(c, env, fctx, nounset) for c in t[1])
    if k == "var":
        n = t[1] if isinstance(t[1], str) else ev(t[1], env, fctx, nounset)
        if n in env:
            return env[n]
        if nounset:
            raise RefError("unset variable " + n)
        return ""
    if k in ("def", "alt"):
        n = ev(t[1], env, fctx, nounset)
        unset = (n not in env) or (t[2] and env[n] == "")
        if k == "def":
            return ev(t[3], env, fctx, nounset) if unset else env[n]
        else:
            return "" if unset else ev(t[3], env, fctx, nounset)
    if k == "fun":
        args = [ev(a, env, fctx, nounset) for a in t[2]]
        return call(t[1], args, fctx)
    raise AssertionError(k)

def _regex(pattern, flags):
    try:
        return re.compile(pattern, flags)
    except re.error:
        raise RefError("bad regex")

def call(name, a, fctx):
    n = len(a)
    if name == "eq":
        if n != 2: raise RefError("arity")
        return tf(a[0] == a[1])
    if name == "ne":
        if n != 2: raise RefError("arity")
        return tf(a[0] != a[1])
    if name == "not":
        if n != 1: raise RefError("arity")
        return tf(not truth(a[0]))
    if name == "or":
        if n == 0: raise Unspecified("or without arguments")
        r = False
        for x in a:                      # all arguments are expanded, then interpreted
            r = truth(x) or r
        return tf(r)
    if name == "and":
        if n == 0: raise Unspecified("and without arguments")
        r = True
        for x in a:
            r = truth(x) and r
        return tf(r)
    if name == "if-then-else":
        if n != 3: raise RefError("arity")
        return a[1] if truth(a[0]) else a[2]
    if name == "strip":
        if n != 1: raise RefError("arity")
        s = a[0]
        if any(c.isspace() and c not in " \t\n" for c in s):
            raise Unspecified("exotic whitespace")
        return s.strip(" \t\n")
    if name == "subst":
        if n != 3: raise RefError("arity")
        if a[0] == "": raise Unspecified("subst with empty from")
        return a[2].replace(a[0], a[1])
    if name == "match":
        if n not in (2, 3): raise RefError("arity")
        fl = 0
        if n == 3:
            if a[2] != "i": raise RefError("flag")
            fl = re.IGNORECASE
        return tf(_regex(a[1], fl).search(a[0]) is not None)
    if name == "resubst":
        if n not in (3, 4): raise RefError("arity")
        fl = 0
        if n == 4:
            if a[3] != "i": raise RefError("flag")
            fl = re.IGNORECASE
        if "\\" in a[1]: raise Unspecified("backslash in replacement")
        return _regex(a[0], fl).sub(lambda m: a[1], a[2])
    if name == "is-sandbox-enabled":
        if n != 0: raise RefError("arity")
        return tf(fctx["sandbox"])
    if name == "is-tool-defined":
        if n != 1: raise RefError("arity")
        return tf(a[0] in fctx["tools"])
    if name == "get-tool-env":
        if n not in (2, 3): raise RefError("arity")
        if a[0] not in fctx["tools"]: raise RefError("tool undefined")
        e = fctx["tools"][a[0]]
        if a[1] in e: return e[a[1]]
        if n == 3: return a[2]
        raise RefError("tool var undefined")
    raise RefError("unknown function " + name)

# ---------------------------------------------------------------------------------------
# renderer: tree -> source text.  delims = extra delimiter characters of the context.

def _lit(text, prot, delims):
    out = []
    i = 0
    j = 0
    special = BASE_SPECIAL + delims
    while i < len(text):
        p = prot[j % len(prot)] if prot else 0
        j += 1
        mode, run = p % 4, 1 + (p // 4) % 4
        if mode == 3 and "\x00" in delims:              # already inside "...": no nested "
            mode = 0
        c = text[i]
        if mode == 0:                                   # raw where legal, else backslash
            out.append(c if c not in special else "\\" + c)
            i += 1
        elif mode == 1:                                 # backslash
            out.append("\\" + c)
            i += 1
        elif mode == 2:                                 # single quotes around a run
            seg = text[i:i+run]
            if "'" in seg:
                seg = seg[:seg.index("'")]
            if not seg:
                out.append("\\'")
                i += 1
            else:
                out.append("'" + seg + "'")
                i += len(seg)
        else:                                           # double quotes around a run
            seg = text[i:i+run]
            out.append('"' + "".join(ch if ch not in BASE_SPECIAL else "\\" + ch for ch in seg) + '"')
            i += len(seg)
    return "".join(out)

def render(t, delims=""):
    """source text of tree t in a context with the given extra delimiters"""
    ps = [p for p in _pieces(t, delims) if p]
    for i in range(len(ps) - 1):
        # a bare $NAME must not run into a following name character
        if _is_bare(ps[i]) and ps[i+1][0] in NAME_CHARS:
            ps[i] = "${" + ps[i][1:] + "}"
    return "".join(ps)

def _pieces(t, delims):
    k = t[0]
    if k == "lit":
        return [_lit(t[1], t[2], delims)]
    if k == "seq":
        return [p for c in t[1] for p in _pieces(c, delims)]
    if k == "dq":
        return ['"' + render(["seq", t[1]], "\x00") + '"']
    if k == "var":
        if isinstance(t[1], str):
            if t[2] or not t[1] or t[1][0] not in NAME_START or any(c not in NAME_CHARS for c in t[1]):
                return ["${" + _lit(t[1], [0], ":-+}") + "}"]
            return ["$" + t[1]]
        return ["${" + render(t[1], ":-+}") + "}"]
    if k in ("def", "alt"):
        op = (":" if t[2] else "") + ("-" if k == "def" else "+")
        return ["${" + render(t[1], ":-+}") + op + render(t[3], "}") + "}"]
    if k == "fun":
        return ["$(" + ",".join([t[1]] + [render(a, ",)") for a in t[2]]) + ")"]
    raise AssertionError(k)

def _is_bare(p):
    return len(p) > 1 and p[0] == "$" and p[1] in NAME_START and all(c in NAME_CHARS for c in p[1:])

# ---------------------------------------------------------------------------------------
# Hypothesis strategies

VARS = ["V0", "V1", "V2", "V3", "U0", "U1", "IND", "a", "V0x"]
VALUES = ["", "0", "1", "x", "false", "FALSE", "true", "y z", "a,b", "V0", "U0", "$V1", "'",
          "é", "a)b", "}", "\\", '"', "-", ":", "+", "\n", "\t", "😀"]
TOOLS = {"t0": {"A": "1", "B": ""}, "t1": {}}

ALPHABET = "ab01xV ,)}(:{+-$\\\"'\n\té☃😀_/.*^|[]?=<>!&#~%@;`"
WORDS = ["", "0", "1", "false", "False", "true", "x", "ab", "V0", "U0", "t0", "t1", "A", "B", "i"]

text_st = st.one_of(st.sampled_from(WORDS),
                    st.text(alphabet=ALPHABET, max_size=6),
                    st.text(max_size=4))
prot_st = st.lists(st.integers(0, 15), min_size=1, max_size=4)
lit_st = st.builds(lambda t, p: ["lit", t, p], text_st, prot_st)
name_lit = st.sampled_from(VARS).map(lambda n: ["lit", n, [0]])

REGEXES = ["a", "^a", "b$", "a.b", "[ab]+", "(a|x)", "x*", "0|1", "^$", ".", "A", "\\.", "(", "[a"]

FUNS = {
    "eq": (2, 2), "ne": (2, 2), "not": (1, 1), "or": (1, 3), "and": (1, 3),
    "if-then-else": (3, 3), "strip": (1, 1), "subst": (3, 3), "match": (2, 3),
    "resubst": (3, 4), "is-sandbox-enabled": (0, 0), "is-tool-defined": (1, 1),
    "get-tool-env": (2, 3),
}

def _fun(children):
    def mk(draw):
        name = draw(st.sampled_from(sorted(FUNS) + ["nofun"]))
        lo, hi = FUNS.get(name, (0, 2))
        if draw(st.integers(0, 19)) == 0:              # wrong arity now and then
            n = draw(st.integers(0, 4))
        else:
            n = draw(st.integers(lo, hi))
        args = [draw(children) for _ in range(n)]
        if name == "match" and n >= 2 and draw(st.booleans()):
            args[1] = ["lit", draw(st.sampled_from(REGEXES)), draw(prot_st)]
        if name == "resubst" and n >= 3 and draw(st.booleans()):
            args[0] = ["lit", draw(st.sampled_from(REGEXES)), draw(prot_st)]
        if name in ("match", "resubst") and n == FUNS[name][1] and draw(st.integers(0, 3)) > 0:
            args[-1] = ["lit", "i", [0]]
        if name in ("is-tool-defined", "get-tool-env") and n >= 1 and draw(st.booleans()):
            args[0] = ["lit", draw(st.sampled_from(["t0", "t1", "t9"])), [0]]
        if name == "get-tool-env" and n >= 2 and draw(st.booleans()):
            args[1] = ["lit", draw(st.sampled_from(["A", "B", "C"])), [0]]
        return ["fun", name, args]
    return st.composite(lambda draw: mk(draw))()

def _extend(children):
    name_st = st.one_of(name_lit, name_lit, children.filter(lambda t: t[0] == "var"))
    return st.one_of(
        st.lists(children, min_size=0, max_size=3).map(lambda cs: ["seq", cs]),
        st.lists(children, min_size=0, max_size=3).map(lambda cs: ["dq", cs]),
        st.builds(lambda n, b: ["var", n, b], st.sampled_from(VARS), st.booleans()),
        st.builds(lambda n: ["var", n, True], name_st),
        st.builds(lambda n, c, d: ["def", n, c, d], name_st, st.booleans(), children),
        st.builds(lambda n, c, d: ["alt", n, c, d], name_st, st.booleans(), children),
        _fun(children),
    )

base_st = st.one_of(lit_st,
                    st.builds(lambda n, b: ["var", n, b], st.sampled_from(VARS), st.booleans()))
tree_st = st.recursive(base_st, _extend, max_leaves=12)

env_st = st.dictionaries(st.sampled_from(VARS[:4] + VARS[6:]), st.sampled_from(VALUES), max_size=6)\
    .map(lambda d: dict(d, **({"IND": "V0"} if "IND" in d else {})))

def depth(t):
    k = t[0]
    if k == "lit": return 1
    if k in ("seq", "dq"): return 1 + max([depth(c) for c in t[1]] or [0])
    if k == "var": return 1 if isinstance(t[1], str) else 1 + depth(t[1])
    if k in ("def", "alt"): return 1 + max(depth(t[1]), depth(t[3]))
    if k == "fun": return 1 + max([depth(c) for c in t[2]] or [0])

def kinds(t, acc=None):
    acc = set() if acc is None else acc
    acc.add(t[0])
    k = t[0]
    if k in ("seq", "dq"):
        for c in t[1]: kinds(c, acc)
    elif k == "var" and not isinstance(t[1], str):
        kinds(t[1], acc)
    elif k in ("def", "alt"):
        kinds(t[1], acc); kinds(t[3], acc)
    elif k == "fun":
        acc.add("fun:" + t[1])
        for c in t[2]: kinds(c, acc)
    return acc

# ---------------------------------------------------------------------------------------
# condition language: boolean trees
#   ["s", strtree]  ["call", fname, [strtree...]]  ["cmp", op, S, S]  ["not", B]
#   ["and", B, B]  ["or", B, B]        S = ["s", tree] | ["call", ...]
# every node carries an optional trailing int = number of redundant parentheses

CMP = ["==", "!=", "<", "<=", ">", ">="]
PREC = {"or": 1, "and": 2, "cmp!=": 3, "cmp==": 4, "cmp>=": 5, "cmp>": 6, "cmp<=": 7, "cmp<": 8,
        "not": 9, "s": 10, "call": 10}

def _sval(n, env, fctx, nounset):
    if n[0] == "s":
        return ev(n[1], env, fctx, nounset)
    if n[0] == "call":
        return call(n[1], [_sval(a, env, fctx, nounset) for a in n[2]], fctx)
    raise RefError("operator in string context")      # documented type error

def bev(n, env, fctx, nounset=False):
    k = n[0]
    if k in ("s", "call"):
        return truth(_sval(n, env, fctx, nounset))
    if k == "cmp":
        l, r = _sval(n[2], env, fctx, nounset), _sval(n[3], env, fctx, nounset)
        op = n[1]
        return {"==": l == r, "!=": l != r, "<": l < r, "<=": l <= r, ">": l > r, ">=": l >= r}[op]
    if k == "not":
        return not bev(n[1], env, fctx, nounset)
    if k == "and":
        l = bev(n[1], env, fctx, nounset); r = bev(n[2], env, fctx, nounset)
        return l and r
    if k == "or":
        l = bev(n[1], env, fctx, nounset); r = bev(n[2], env, fctx, nounset)
        return l or r
    raise AssertionError(k)

def _qlit(tree, single):
    """string literal of the infix language holding substitution text render(tree)"""
    src = render(tree)
    if single:
        # single quoted: verbatim, no substitution -> only usable for plain literal trees
        return "'" + src + "'"
    return '"' + src.replace("\\", "\\\\").replace('"', '\\"') + '"'

def _key(n):
    return "cmp" + n[1] if n[0] == "cmp" else n[0]

def infix(n, extra=()):
    """render with the minimal parentheses the documented precedence table requires;
    extra: iterator of ints, number of redundant parentheses per node"""
    it = iter(extra)
    def r(n, arg=False):
        k = n[0]
        if k == "s":
            s = _qlit(n[1], False)
        elif k == "call":
            s = n[1] + "(" + ", ".join(r(a, True) for a in n[2]) + ")"
        elif k == "cmp":
            s = "%s %s %s" % (paren(n[2], PREC[_key(n)], False), n[1], paren(n[3], PREC[_key(n)], True))
        elif k == "not":
            s = "!" + paren(n[1], PREC["not"], False, unary=True)
        else:
            op = "&&" if k == "and" else "||"
            s = "%s %s %s" % (paren(n[1], PREC[k], False), op, paren(n[2], PREC[k], True))
        if not arg:                                     # function arguments take no parentheses
            for _ in range(next(it, 0)):
                s = "(" + s + ")"
        return s
    def paren(c, p, right, unary=False):
        cp = PREC[_key(c)]
        s = r(c)
        if s.startswith("(") and s.endswith(")") and _balanced(s):
            return s
        need = cp < p or (cp == p and right and not unary)
        return "(" + s + ")" if need else s
    return r(n)

def _balanced(s):
    d = 0
    for i, c in enumerate(s):
        if c == "(": d += 1
        elif c == ")":
            d -= 1
            if d == 0 and i != len(s) - 1:
                return False
    return d == 0

def funform(n):
    """equivalent nested $(...) spelling; None if not expressible (ordering operators)"""
    k = n[0]
    if k == "s":
        return render(n[1], ",)")
    if k == "call":
        args = [funform(a) for a in n[2]]
        if any(a is None for a in args): return None
        return "$(" + ",".join([n[1]] + args) + ")"
    if k == "cmp":
        if n[1] not in ("==", "!="): return None
        a, b = funform(n[2]), funform(n[3])
        if a is None or b is None: return None
        return "$(%s,%s,%s)" % ("eq" if n[1] == "==" else "ne", a, b)
    if k == "not":
        a = funform(n[1])
        return None if a is None else "$(not,%s)" % a
    a, b = funform(n[1]), funform(n[2])
    if a is None or b is None: return None
    return "$(%s,%s,%s)" % (k, a, b)

# strings usable inside infix literals: no raw newline / tab (pyparsing quoted strings are
# single line and the manual is silent), otherwise the full tree language
cond_text = st.one_of(st.sampled_from(WORDS), st.text(alphabet=ALPHABET.replace("\n", "").replace("\t", ""), max_size=5))
cond_lit = st.builds(lambda t, p: ["lit", t, p], cond_text, prot_st)
cond_tree = st.recursive(
    st.one_of(cond_lit, st.builds(lambda n, b: ["var", n, b], st.sampled_from(VARS), st.booleans())),
    _extend, max_leaves=5).filter(lambda t: "\n" not in render(t) and "\t" not in render(t))

sleaf = st.one_of(cond_tree.map(lambda t: ["s", t]))
def _call(children):
    return st.builds(lambda f, a: ["call", f, a],
                     st.sampled_from(["eq", "ne", "not", "or", "and", "strip", "if-then-else", "match", "is-tool-defined"]),
                     st.lists(children, min_size=1, max_size=3))
sexpr = st.recursive(sleaf, _call, max_leaves=4)

def _bext(children):
    return st.one_of(
        st.builds(lambda b: ["not", b], children),
        st.builds(lambda a, b: ["and", a, b], children, children),
        st.builds(lambda a, b: ["or", a, b], children, children),
    )
bool_st = st.recursive(
    st.one_of(sexpr, st.builds(lambda o, a, b: ["cmp", o, a, b], st.sampled_from(CMP), sexpr, sexpr)),
    _bext, max_leaves=6)
