"""E4 - independent canonical form of a directory tree (no call into bob.utils).

canon(dir) = sorted list of (relative path, type, permission bits, content | link target)
for everything below dir, skipping *directories* named .git/.svn/.portage-cache and files
named BaseDirList.txt (the documented ignores of Bob's hasher)."""
import os, stat, hashlib

IGNORE_DIRS = {b".git", b".svn", b".portage-cache"}
IGNORE_FILES = {b"BaseDirList.txt"}

def canon(root, content_hash=True, ignore=True, with_root_mode=False):
    root = os.fsencode(root)
    out = []
    def walk(rel):
        d = os.path.join(root, rel) if rel else root
        for name in os.listdir(d):
            p = os.path.join(d, name)
            r = os.path.join(rel, name) if rel else name
            st = os.lstat(p)
            m = st.st_mode
            perm = stat.S_IMODE(m)
            if stat.S_ISDIR(m):
                if ignore and name in IGNORE_DIRS:
                    continue
                out.append((r, "d", perm, b""))
                walk(r)
            elif stat.S_ISREG(m):
                if ignore and name in IGNORE_FILES:
                    continue
                with open(p, "rb") as f:
                    data = f.read()
                out.append((r, "f", perm, hashlib.sha256(data).digest() if content_hash else data))
            elif stat.S_ISLNK(m):
                out.append((r, "l", perm, os.readlink(p)))
            elif stat.S_ISFIFO(m):
                out.append((r, "p", perm, b""))
            elif stat.S_ISCHR(m) or stat.S_ISBLK(m):
                out.append((r, "c" if stat.S_ISCHR(m) else "b", perm, str(st.st_rdev).encode()))
            else:
                out.append((r, "?", perm, b""))
    walk(b"")
    out.sort()
    if with_root_mode:
        out.insert(0, (b".", "d", stat.S_IMODE(os.lstat(root).st_mode), b""))
    return out

def digest(c):
    h = hashlib.blake2b(digest_size=16)
    for (r, t, perm, data) in c:
        h.update(b"%d:%s\0%s\0%d\0%d:%s\0" % (len(r), r, t.encode(), perm, len(data), data))
    return h.hexdigest()

def describe(c, limit=40):
    return [(os.fsdecode(r), t, oct(perm), (data.hex()[:12] if t == "f" else os.fsdecode(data)))
            for (r, t, perm, data) in c[:limit]]

def diff(a, b, limit=10):
    da = {x[0]: x for x in a}
    db = {x[0]: x for x in b}
    out = []
    for k in sorted(set(da) | set(db)):
        if da.get(k) != db.get(k):
            fa, fb = da.get(k), db.get(k)
            out.append((os.fsdecode(k),
                        None if fa is None else (fa[1], oct(fa[2]), fa[3].hex()[:12] if fa[1] == "f" else os.fsdecode(fa[3])),
                        None if fb is None else (fb[1], oct(fb[2]), fb[3].hex()[:12] if fb[1] == "f" else os.fsdecode(fb[3]))))
            if len(out) >= limit:
                break
    return out
