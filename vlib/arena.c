/* Caching arena allocator for CPython's "virtual alloc" hook.
 *
 * CPython 3.12 allocates the chunks of its frame data stack with mmap() and returns them
 * with munmap() as soon as the recursion unwinds.  pyparsing's infix grammars (used by Bob's
 * IfExpression, path predicates and retention expressions) recurse ~170 frames per parenthesis
 * level, so every parse costs hundreds of mmap/munmap pairs; with 16 shard processes the
 * page-fault path of this VM serialises and the checks spend half their time in the kernel.
 * This hook keeps small regions (16 KiB .. 512 KiB, powers of two) on a free list instead.
 * It changes nothing that the code under test can observe.
 */
#include <stddef.h>
#include <sys/mman.h>

typedef struct {
    void *ctx;
    void *(*alloc)(void *ctx, size_t size);
    void (*free)(void *ctx, void *ptr, size_t size);
} ArenaAllocator;

extern void PyObject_SetArenaAllocator(ArenaAllocator *allocator);

#define NB 6
#define PER 256
static void *cache[NB][PER];
static int cnt[NB];

static int bucket(size_t s)
{
    size_t x = 16384;
    for (int b = 0; b < NB; b++, x <<= 1)
        if (x == s) return b;
    return -1;
}

static void *a_alloc(void *ctx, size_t s)
{
    int b = bucket(s);
    if (b >= 0 && cnt[b] > 0)
        return cache[b][--cnt[b]];
    void *p = mmap(NULL, s, PROT_READ | PROT_WRITE, MAP_PRIVATE | MAP_ANONYMOUS, -1, 0);
    return p == MAP_FAILED ? NULL : p;
}

static void a_free(void *ctx, void *p, size_t s)
{
    int b = bucket(s);
    if (b >= 0 && cnt[b] < PER) {
        cache[b][cnt[b]++] = p;
        return;
    }
    munmap(p, s);
}

void verif_install(void)
{
    static ArenaAllocator a = { NULL, a_alloc, a_free };
    PyObject_SetArenaAllocator(&a);
}
