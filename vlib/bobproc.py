"""E1 - run Bob commands hermetically.

inproc(project, argv, ...)   fresh forked child of the (warm) harness process, inline executor
script(project, argv, ...)   the real `bob` script as a subprocess (real process pool)

Both return Result(rc, out, err).  rc < 0: killed by signal -rc.
"""
import os, sys, subprocess, signal, collections, concurrent.futures, tempfile

from . import REPO

Result = collections.namedtuple("Result", "rc out err")

BASE_PATH = "/usr/local/bin:/usr/bin:/bin"

def clean_env(home, extra=None):
    env = {
        "PATH": BASE_PATH, "HOME": home, "XDG_CONFIG_HOME": os.path.join(home, ".config"),
        "LC_ALL": "C.UTF-8", "LANG": "C.UTF-8", "GIT_CONFIG_GLOBAL": "/dev/null",
        "GIT_CONFIG_NOSYSTEM": "1", "GIT_AUTHOR_NAME": "v", "GIT_AUTHOR_EMAIL": "v@v",
        "GIT_COMMITTER_NAME": "v", "GIT_COMMITTER_EMAIL": "v@v", "TERM": "dumb",
        "PYTHONHASHSEED": "0", "TZ": "UTC",
    }
    if extra:
        env.update(extra)
    return env


class InlineExecutor(concurrent.futures.Executor):
    """submit() runs the callable immediately in the calling thread"""
    def submit(self, fn, *args, **kwargs):
        f = concurrent.futures.Future()
        try:
            f.set_result(fn(*args, **kwargs))
        except BaseException as e:
            f.set_exception(e)
        return f
    def shutdown(self, wait=True, cancel_futures=False):
        pass


def warm():
    """import the bob modules once in the parent so that forked children start fast"""
    import bob.scripts, bob.input, bob.builder, bob.archive, bob.share, bob.audit  # noqa
    import bob.cmds.build.build, bob.cmds.build.clean, bob.cmds.build.state, bob.cmds.build.query  # noqa
    import bob.cmds.archive, bob.cmds.misc, bob.invoker, bob.languages  # noqa
    import bob.scm  # noqa


def inproc(project, argv, home=None, env_extra=None, patch=None, stdin_null=True, timeout=300,
           inline_executor=True, raw_env=None):
    """Run `bob <argv>` in a forked child with cwd=project.
    patch: callable run in the child after imports, before bob() (monkey patches)."""
    warm()
    home = home or os.path.join(project, ".home")
    os.makedirs(home, exist_ok=True)
    outf = tempfile.TemporaryFile()
    errf = tempfile.TemporaryFile()
    sys.stdout.flush(); sys.stderr.flush()
    pid = os.fork()
    if pid == 0:
        rc = 120
        try:
            os.setsid()
            os.chdir(project)
            os.dup2(outf.fileno(), 1)
            os.dup2(errf.fileno(), 2)
            if stdin_null:
                dn = os.open(os.devnull, os.O_RDONLY)
                os.dup2(dn, 0)
            env = raw_env if raw_env is not None else clean_env(home, env_extra)
            os.environ.clear()
            os.environ.update(env)
            sys.stdout = os.fdopen(1, "w", buffering=1, closefd=False)
            sys.stderr = os.fdopen(2, "w", buffering=1, closefd=False)
            signal.signal(signal.SIGINT, signal.SIG_DFL)
            import bob, bob.utils, bob.scripts
            bob.DEBUG['ngd'] = True
            if inline_executor:
                bob.utils.getProcessPoolExecutor = lambda: InlineExecutor()
                import bob.cmds.build.build as bb
                if hasattr(bb, "getProcessPoolExecutor"):
                    bb.getProcessPoolExecutor = bob.utils.getProcessPoolExecutor
            if patch is not None:
                patch()
            sys.argv = [os.path.join(REPO, "bob")] + list(argv)
            rc = bob.scripts.bob(os.path.join(REPO, "bob"))
            if rc is None:
                rc = 0
        except SystemExit as e:
            rc = e.code if isinstance(e.code, int) else (0 if e.code is None else 1)
        except BaseException:
            import traceback
            traceback.print_exc()
            rc = 121
        finally:
            try:
                sys.stdout.flush(); sys.stderr.flush()
            except Exception:
                pass
            os._exit(rc & 0xff)
    # parent
    import time
    t0 = time.time()
    while True:
        wpid, status = os.waitpid(pid, os.WNOHANG)
        if wpid == pid:
            break
        if time.time() - t0 > timeout:
            try:
                os.killpg(pid, signal.SIGKILL)
            except ProcessLookupError:
                pass
            os.waitpid(pid, 0)
            status = None
            break
        time.sleep(0.002)
    outf.seek(0); errf.seek(0)
    out = outf.read().decode("utf-8", "replace"); err = errf.read().decode("utf-8", "replace")
    outf.close(); errf.close()
    if status is None:
        return Result(-999, out, err + "\n[harness: timeout]")
    if os.WIFSIGNALED(status):
        # make sure no orphan of a killed instance survives the case
        try:
            os.killpg(pid, signal.SIGKILL)
        except ProcessLookupError:
            pass
        return Result(-os.WTERMSIG(status), out, err)
    return Result(os.WEXITSTATUS(status), out, err)


def script(project, argv, home=None, env_extra=None, timeout=600, raw_env=None):
    home = home or os.path.join(project, ".home")
    os.makedirs(home, exist_ok=True)
    env = raw_env if raw_env is not None else clean_env(home, env_extra)
    try:
        p = subprocess.run([sys.executable, os.path.join(REPO, "bob")] + list(argv), cwd=project, env=env,
                           stdin=subprocess.DEVNULL, stdout=subprocess.PIPE, stderr=subprocess.PIPE,
                           timeout=timeout, start_new_session=True)
    except subprocess.TimeoutExpired as e:
        return Result(-999, (e.stdout or b"").decode("utf-8", "replace"), (e.stderr or b"").decode("utf-8", "replace"))
    return Result(p.returncode, p.stdout.decode("utf-8", "replace"), p.stderr.decode("utf-8", "replace"))


def remove_stale_lock(project):
    try:
        os.unlink(os.path.join(project, ".bob-state.lock"))
    except FileNotFoundError:
        pass


# ---------------------------------------------------------------------------------------
# direct mode: run bob() inside the calling process (no fork).  Process creation is the
# bottleneck of this VM (fork of a Python process is serialised machine wide), so the
# end-to-end checks run Bob this way and confirm every suspected violation in fresh
# processes (script()) before it is reported.

_direct_ready = False

def _direct_setup():
    global _direct_ready
    if _direct_ready:
        return
    warm()
    import bob, bob.utils
    bob.utils.getProcessPoolExecutor = lambda: InlineExecutor()
    _direct_ready = True


def direct(project, argv, home=None, env_extra=None, raw_env=None, debug=None):
    """Run `bob <argv>` in this process with cwd=project.  Returns Result."""
    _direct_setup()
    import bob, bob.scripts, bob.input, bob.state, bob.tty
    home = home or os.path.join(project, ".home")
    os.makedirs(home, exist_ok=True)
    env = raw_env if raw_env is not None else clean_env(home, env_extra)
    saved_env = dict(os.environ)
    saved_cwd = os.getcwd()
    saved_argv = sys.argv
    saved_out, saved_err = sys.stdout, sys.stderr
    saved_debug = dict(bob.DEBUG)
    saved_sig = {s: signal.getsignal(s) for s in (signal.SIGINT, signal.SIGTERM)}
    saved_umask = os.umask(0o022); os.umask(saved_umask)
    outf = tempfile.TemporaryFile()
    errf = tempfile.TemporaryFile()
    sys.stdout.flush(); sys.stderr.flush()
    fd1, fd2 = os.dup(1), os.dup(2)
    rc = 121
    # Bob leaves sqlite connections (e.g. the develop directory table) to process exit; in this
    # mode they have to be closed explicitly or the next invocation finds the database locked
    import sqlite3
    real_connect = sqlite3.connect
    conns = []
    def tracking_connect(*a, **kw):
        c = real_connect(*a, **kw)
        conns.append(c)
        return c
    sqlite3.connect = tracking_connect
    try:
        os.dup2(outf.fileno(), 1)
        os.dup2(errf.fileno(), 2)
        sys.stdout = os.fdopen(os.dup(1), "w", buffering=1)
        sys.stderr = os.fdopen(os.dup(2), "w", buffering=1)
        os.environ.clear()
        os.environ.update(env)
        os.chdir(project)
        bob.DEBUG['ngd'] = True
        if debug:
            for k in debug:
                bob.DEBUG[k] = True
        sys.argv = [os.path.join(REPO, "bob")] + list(argv)
        try:
            rc = bob.scripts.bob(os.path.join(REPO, "bob"))
            if rc is None:
                rc = 0
        except SystemExit as e:
            rc = e.code if isinstance(e.code, int) else (0 if e.code is None else 1)
        except BaseException:
            import traceback
            traceback.print_exc(file=sys.stderr)
            rc = 121
    finally:
        try:
            sys.stdout.flush(); sys.stderr.flush()
            sys.stdout.close(); sys.stderr.close()
        except Exception:
            pass
        sqlite3.connect = real_connect
        for c in conns:
            try:
                c.close()
            except Exception:
                pass
        os.dup2(fd1, 1); os.dup2(fd2, 2)
        os.close(fd1); os.close(fd2)
        sys.stdout, sys.stderr = saved_out, saved_err
        sys.argv = saved_argv
        try:
            os.chdir(saved_cwd)
        except OSError:
            os.chdir("/")
        os.environ.clear(); os.environ.update(saved_env)
        os.umask(saved_umask)
        bob.DEBUG.clear(); bob.DEBUG.update(saved_debug)
        for s, h in saved_sig.items():
            try:
                signal.signal(s, h)
            except (ValueError, TypeError):
                pass
        # state that an invocation may leave behind in the interpreter
        if bob.state._BobState.instance is not None:
            try:
                bob.state.finalize()
            except Exception:
                bob.state._BobState.instance = None
        bob.input.RecipeSet._ignoreCmdConfig = False
        bob.input.RecipeSet._colorModeConfig = None
        bob.input.RecipeSet._queryMode = None
    outf.seek(0); errf.seek(0)
    out = outf.read().decode("utf-8", "replace"); err = errf.read().decode("utf-8", "replace")
    outf.close(); errf.close()
    return Result(rc, out, err)
