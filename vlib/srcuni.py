"""E7 - local source universes for the checkout checks (C12).

Upstream side, written WITHOUT any git process (process creation is the bottleneck of this VM):
  BareRepo      minimal writer of loose git objects (blob/tree/commit/annotated tag) and refs into a bare
                repository; object ids are computed here, so the same class with path=None is a pure model
                (used by known-finding matchers, which must not touch the disk).
  Universe      1-3 bare repositories (linear branches forking from each other, lightweight and annotated
                tags, forks = byte copies of another repository), plain files / tarballs served through
                file:// URLs, import directories.  Every mutation is an *upstream event*; branches only
                move fast-forward, tags never move.  All times come from a logical clock.
User side (real git, because it is the user's tool):
  git(), head_info(), find_repos(), reachable_commits()
"""
import os, io, hashlib, zlib, shutil, subprocess, tarfile, gzip

T0 = 1500000000          # logical clock anchor (2017), far in the past
TICK = 10

FILE_POOL = ["f0.txt", "f1.txt", "f2.txt", "d/g0.txt", "d/g1.txt", "x0.sh"]


def _sha(kind, data):
    return hashlib.sha1(b"%s %d\0" % (kind, len(data)) + data).hexdigest()


class BareRepo:
    def __init__(self, path):
        self.path = path
        self.branches = {}      # name -> [commit ids, oldest .. tip] (complete first-parent ancestry)
        self.order = []         # branch names in creation order
        self.tags = {}          # name -> (commit id, annotated)
        self.tagorder = []
        self.trees = {}         # commit id -> {path: bytes}
        if path is not None:
            os.makedirs(os.path.join(path, "objects"))
            os.makedirs(os.path.join(path, "refs", "heads"))
            os.makedirs(os.path.join(path, "refs", "tags"))
            with open(os.path.join(path, "HEAD"), "w") as f:
                f.write("ref: refs/heads/master\n")
            with open(os.path.join(path, "config"), "w") as f:
                f.write("[core]\n\trepositoryformatversion = 0\n\tfilemode = true\n\tbare = true\n")

    # ---- object level
    def _obj(self, kind, data):
        sha = _sha(kind, data)
        if self.path is not None:
            d = os.path.join(self.path, "objects", sha[:2])
            p = os.path.join(d, sha[2:])
            if not os.path.exists(p):
                os.makedirs(d, exist_ok=True)
                tmp = p + ".tmp"
                with open(tmp, "wb") as f:
                    f.write(zlib.compress(b"%s %d\0" % (kind, len(data)) + data))
                os.chmod(tmp, 0o444)
                os.rename(tmp, p)
        return sha

    def _tree(self, files):
        """files: {relative path: bytes} -> tree id (nested trees for sub directories)"""
        here, sub = {}, {}
        for path, data in files.items():
            if "/" in path:
                top, rest = path.split("/", 1)
                sub.setdefault(top, {})[rest] = data
            else:
                here[path] = data
        ents = []
        for name, data in here.items():
            mode = b"100755" if name.endswith(".sh") else b"100644"
            ents.append((name.encode(), mode, self._obj(b"blob", data)))
        for name, fs in sub.items():
            ents.append((name.encode() + b"/", b"40000", self._tree(fs)))
        ents.sort(key=lambda e: e[0])
        raw = b"".join(b"%s %s\0" % (mode, name.rstrip(b"/")) + bytes.fromhex(sha) for name, mode, sha in ents)
        return self._obj(b"tree", raw)

    def _ref(self, name, sha):
        if self.path is not None:
            p = os.path.join(self.path, name)
            os.makedirs(os.path.dirname(p), exist_ok=True)
            tmp = p + ".tmp"
            with open(tmp, "w") as f:
                f.write(sha + "\n")
            os.rename(tmp, p)

    # ---- upstream events
    def commit(self, branch, files, t, msg):
        """new commit on top of `branch` (which must exist, or be created with parent=None by root())"""
        hist = self.branches[branch]
        tree = self._tree(files)
        who = b"up <up@example.org> %d +0000" % t
        raw = b"tree %s\n" % tree.encode()
        if hist:
            raw += b"parent %s\n" % hist[-1].encode()
        raw += b"author %s\ncommitter %s\n\n%s\n" % (who, who, msg.encode())
        sha = self._obj(b"commit", raw)
        hist.append(sha)
        self.trees[sha] = dict(files)
        self._ref("refs/heads/" + branch, sha)
        return sha

    def root(self, branch):
        self.branches[branch] = []
        self.order.append(branch)

    def new_branch(self, name, from_branch, upto):
        """branch `name` pointing at from_branch's commit number `upto`"""
        hist = self.branches[from_branch][:upto + 1]
        self.branches[name] = list(hist)
        self.order.append(name)
        self._ref("refs/heads/" + name, hist[-1])

    def new_tag(self, name, commit, annotated, t):
        if annotated:
            raw = b"object %s\ntype commit\ntag %s\ntagger up <up@example.org> %d +0000\n\n%s\n" % \
                  (commit.encode(), name.encode(), t, name.encode())
            self._ref("refs/tags/" + name, self._obj(b"tag", raw))
        else:
            self._ref("refs/tags/" + name, commit)
        self.tags[name] = (commit, annotated)
        self.tagorder.append(name)

    def fork(self, path):
        r = BareRepo.__new__(BareRepo)
        r.path = path
        r.branches = {k: list(v) for k, v in self.branches.items()}
        r.order = list(self.order)
        r.tags = dict(self.tags)
        r.tagorder = list(self.tagorder)
        r.trees = dict(self.trees)
        if path is not None:
            shutil.copytree(self.path, path)
        return r

    def tip_files(self, branch):
        return dict(self.trees[self.branches[branch][-1]])


class Universe:
    """root=None: pure model.  `project` is where import sources live (<project>/imports/i<k>)."""
    NFILES = 3          # url files: 0,1 plain text, 2 tarball
    NIMPORTS = 2

    def __init__(self, root, project):
        self.root = root
        self.project = project
        self.clock = 0
        self.serial = 0
        self.ntags = 0
        self.repos = []
        self.files = {}        # k -> bytes (current upstream content)
        self.file_members = {}
        self.imports = {}      # k -> {relpath: bytes}
        self.import_deleted = set()   # import dirs that ever lost a file (relevant for prune: False)
        if root is not None:
            os.makedirs(root)
        self._seed_repo(None)
        for k in range(self.NFILES):
            self.set_file(k)
        for k in range(self.NIMPORTS):
            self.imports[k] = {}
            self.import_event(k, 0, 0)
            self.import_event(k, 1, 1)

    # ---- clock / unique contents
    def tick(self):
        self.clock += 1
        return T0 + self.clock * TICK

    def uniq(self, what):
        self.serial += 1
        return ("%s-%d\n" % (what, self.serial)).encode()

    def _stamp(self, path):
        t = self.tick()
        os.utime(path, (t, t), follow_symlinks=False)

    # ---- git
    def _seed_repo(self, fork_of):
        n = len(self.repos)
        path = os.path.join(self.root, "r%d.git" % n) if self.root is not None else None
        if fork_of is not None:
            r = self.repos[fork_of % len(self.repos)].fork(path)
            self.repos.append(r)
            return r
        r = BareRepo(path)
        self.repos.append(r)
        r.root("master")
        files = {"f0.txt": self.uniq("r%d-f0" % n), "d/g0.txt": self.uniq("r%d-g0" % n)}
        r.commit("master", files, self.tick(), "c0")
        files = dict(files); files["f1.txt"] = self.uniq("r%d-f1" % n)
        r.commit("master", files, self.tick(), "c1")
        r.new_tag("r%dt0" % n, r.branches["master"][0], False, self.tick())
        r.new_branch("b1", "master", 0)
        files = r.tip_files("b1"); files["f0.txt"] = self.uniq("r%d-b1" % n)
        r.commit("b1", files, self.tick(), "b1-c")
        files = r.tip_files("master"); files["x0.sh"] = self.uniq("r%d-x0" % n)
        r.commit("master", files, self.tick(), "c2")
        r.new_tag("r%dt1" % n, r.branches["master"][-1], True, self.tick())
        return r

    def repo(self, i):
        return self.repos[i % len(self.repos)]

    def repo_url(self, i, form):
        if self.root is None:
            p = "/UNI/r%d.git" % (i % len(self.repos))
        else:
            p = self.repos[i % len(self.repos)].path
        return ("file://" + p) if form else p

    def ev_new_repo(self, fork_of):
        """fork_of: None = unrelated repository, int = byte copy of that repository"""
        if len(self.repos) >= 3:
            return False
        self._seed_repo(fork_of)
        return True

    def ev_commit(self, ri, bi, change, fi):
        r = self.repo(ri)
        b = r.order[bi % len(r.order)]
        files = r.tip_files(b)
        names = sorted(files)
        kind = change % 4
        if kind == 2 and len(names) > 1:
            del files[names[fi % len(names)]]
            what = "del"
        elif kind == 1:
            free = [n for n in FILE_POOL if n not in files] or names
            files[free[fi % len(free)]] = self.uniq("add")
            what = "add"
        else:
            files[names[fi % len(names)]] = self.uniq("mod")
            what = "mod"
        r.commit(b, files, self.tick(), "up-%s-%d" % (what, self.serial))
        return b

    def ev_branch(self, ri, bi, ci):
        r = self.repo(ri)
        src = r.order[bi % len(r.order)]
        name = "nb%d" % len(r.order)
        if name in r.branches:
            return None
        upto = ci % len(r.branches[src])
        r.new_branch(name, src, upto)
        return name

    def ev_tag(self, ri, bi, ci, annotated):
        r = self.repo(ri)
        src = r.order[bi % len(r.order)]
        self.ntags += 1
        name = "nt%d" % self.ntags          # unique in the whole universe: a tag name never means two commits
        hist = r.branches[src]
        r.new_tag(name, hist[ci % len(hist)], bool(annotated), self.tick())
        return name

    # ---- url files
    def file_name(self, k):
        k %= self.NFILES
        return "pack%d.tgz" % k if k == 2 else "file%d.txt" % k

    def file_path(self, k):
        k %= self.NFILES
        base = self.root if self.root is not None else "/UNI"
        return os.path.join(base, "files", str(k), self.file_name(k))

    def file_url(self, k, form=1):
        p = self.file_path(k)
        return ("file://" + p) if form else p

    def set_file(self, k, shrink=False):
        """upstream replaces the file (same URL).  Tarballs keep their member set unless shrink."""
        k %= self.NFILES
        if k == 2:
            members = dict(self.file_members.get(k) or {"p/a.txt": b"", "p/b.txt": b"", "top.txt": b""})
            if shrink and len(members) > 1:
                del members[sorted(members)[-1]]
            for m in members:
                members[m] = self.uniq("tar-" + m)
            self.file_members[k] = members
            buf = io.BytesIO()
            with tarfile.open(fileobj=buf, mode="w", format=tarfile.GNU_FORMAT) as tf:
                for m in sorted(members):
                    ti = tarfile.TarInfo(m); ti.size = len(members[m]); ti.mtime = T0; ti.mode = 0o644
                    tf.addfile(ti, io.BytesIO(members[m]))
            data = gzip.compress(buf.getvalue(), 1, mtime=0)
        else:
            data = self.uniq("url%d" % k)
        self.files[k] = data
        if self.root is not None:
            p = self.file_path(k)
            os.makedirs(os.path.dirname(p), exist_ok=True)
            tmp = p + ".tmp"
            with open(tmp, "wb") as f:
                f.write(data)
            os.chmod(tmp, 0o644)
            prev = os.stat(p).st_mtime_ns if os.path.exists(p) else 0
            os.rename(tmp, p)
            # Real modification time, NOT the logical clock: the url SCM compares it with the time stamp of its
            # ".extracted" canary, which carries the real time of the previous Bob run.  In real life an upstream
            # change is younger than every earlier build; a Bob invocation (>= 50 ms) always lies between the
            # previous build and this event, so nothing depends on timer granularity.
            now = os.stat(p).st_mtime_ns
            if now <= prev:
                os.utime(p, ns=(prev + 1000000, prev + 1000000))
        self.tick()

    def file_digest(self, k, algo):
        return hashlib.new(algo, self.files[k % self.NFILES]).hexdigest()

    # ---- import directories
    def import_rel(self, k):
        return "imports/i%d" % (k % self.NIMPORTS)

    def import_event(self, k, change, fi):
        k %= self.NIMPORTS
        files = self.imports[k]
        pool = ["h0.txt", "h1.txt", "s/h2.txt"]
        names = sorted(files)
        kind = change % 4
        if kind == 2 and len(names) > 1:
            victim = names[fi % len(names)]
            del files[victim]
            self.import_deleted.add(k)
            if self.project is not None:
                os.unlink(os.path.join(self.project, self.import_rel(k), victim))
            return "del"
        if kind == 1 or not names:
            free = [n for n in pool if n not in files] or names
            name = free[fi % len(free)]
        else:
            name = names[fi % len(names)]
        files[name] = self.uniq("imp%d" % k)
        if self.project is not None:
            p = os.path.join(self.project, self.import_rel(k), name)
            os.makedirs(os.path.dirname(p), exist_ok=True)
            with open(p, "wb") as f:
                f.write(files[name])
            self._stamp(p)
        else:
            self.tick()
        return "mod"


# ------------------------------------------------------------------------------------------- user side
def git_env(home, t=None):
    env = {"PATH": "/usr/local/bin:/usr/bin:/bin", "HOME": home, "XDG_CONFIG_HOME": os.path.join(home, ".config"),
           "LC_ALL": "C.UTF-8", "GIT_CONFIG_GLOBAL": "/dev/null", "GIT_CONFIG_NOSYSTEM": "1",
           "GIT_AUTHOR_NAME": "user", "GIT_AUTHOR_EMAIL": "user@example.org",
           "GIT_COMMITTER_NAME": "user", "GIT_COMMITTER_EMAIL": "user@example.org", "TZ": "UTC",
           "GIT_TERMINAL_PROMPT": "0"}
    if t is not None:
        env["GIT_AUTHOR_DATE"] = env["GIT_COMMITTER_DATE"] = "%d +0000" % t
    return env


def git(cwd, args, home, t=None, check=False):
    p = subprocess.run(["git", "-c", "protocol.file.allow=always", "-c", "advice.detachedHead=false"] + list(args),
                       cwd=cwd, env=git_env(home, t), stdin=subprocess.DEVNULL,
                       stdout=subprocess.PIPE, stderr=subprocess.PIPE)
    if check and p.returncode != 0:
        raise RuntimeError("git %r in %s failed: %s" % (args, cwd, p.stderr.decode("utf-8", "replace")))
    return p.returncode, p.stdout.decode("utf-8", "replace"), p.stderr.decode("utf-8", "replace")


def _packed(gitdir):
    out = {}
    try:
        with open(os.path.join(gitdir, "packed-refs")) as f:
            for line in f:
                line = line.strip()
                if line and line[0] not in "#^" and " " in line:
                    sha, name = line.split(" ", 1)
                    out[name] = sha
    except OSError:
        pass
    return out


def read_ref(gitdir, name):
    try:
        with open(os.path.join(gitdir, name)) as f:
            v = f.read().strip()
        if v.startswith("ref: "):
            return read_ref(gitdir, v[5:])
        return v or None
    except OSError:
        return _packed(gitdir).get(name)


def head_info(workdir):
    """-> (branch name | None if detached, commit id | None if unborn/unreadable) without a process"""
    gitdir = os.path.join(workdir, ".git")
    try:
        with open(os.path.join(gitdir, "HEAD")) as f:
            v = f.read().strip()
    except OSError:
        return None, None
    if v.startswith("ref: "):
        ref = v[5:]
        name = ref[len("refs/heads/"):] if ref.startswith("refs/heads/") else ref
        return name, read_ref(gitdir, ref)
    return None, (v or None)


def remote_branches(workdir):
    gitdir = os.path.join(workdir, ".git")
    names = set()
    d = os.path.join(gitdir, "refs", "remotes", "origin")
    for base, dirs, files in os.walk(d):
        for fn in files:
            names.add(os.path.relpath(os.path.join(base, fn), d))
    for n in _packed(gitdir):
        if n.startswith("refs/remotes/origin/"):
            names.add(n[len("refs/remotes/origin/"):])
    names.discard("HEAD")
    return sorted(names)


def local_branches(workdir):
    gitdir = os.path.join(workdir, ".git")
    names = set()
    d = os.path.join(gitdir, "refs", "heads")
    for base, dirs, files in os.walk(d):
        for fn in files:
            names.add(os.path.relpath(os.path.join(base, fn), d))
    for n in _packed(gitdir):
        if n.startswith("refs/heads/"):
            names.add(n[len("refs/heads/"):])
    return sorted(names)


def find_repos(top):
    """all directories below top that contain a .git directory (work trees), .git itself is not entered"""
    out = []
    for base, dirs, files in os.walk(top):
        if ".git" in dirs:
            out.append(base)
            dirs.remove(".git")
    return out


def reachable_commits(workdir, home):
    """set of commit ids reachable from any ref or HEAD of the repository (`git rev-list --all HEAD`)"""
    _, head = head_info(workdir)
    args = ["rev-list", "--all"] + ([head] if head else [])
    rc, out, err = git(workdir, args, home)
    if rc != 0:
        # HEAD may point to a missing object: ask for the refs alone
        rc, out, err = git(workdir, ["rev-list", "--all"], home)
        if rc != 0:
            return set()
    return set(out.split())
