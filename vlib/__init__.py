"""Shared machinery for the Bob property checks (see /verif/DESIGN.md section 2)."""
import os, sys

VERIF_DIR = os.path.dirname(os.path.dirname(os.path.abspath(__file__)))
REPO = os.environ.get("VERIF_REPO", "/repo")
PYM = os.path.join(REPO, "pym")

def use_repo():
    """Put the code under test (current working tree) first on sys.path."""
    if PYM in sys.path:
        sys.path.remove(PYM)
    sys.path.insert(0, PYM)
    deps = os.path.join(VERIF_DIR, ".deps")
    if os.path.isdir(deps) and deps not in sys.path:
        sys.path.append(deps)

_arena_done = False
def fast_arena():
    """Install the caching arena allocator (vlib/arena.c) if it can be built; a pure
    performance aid for the pyparsing-heavy checks, silently skipped otherwise."""
    global _arena_done
    if _arena_done or os.environ.get("VERIF_NO_ARENA"):
        return
    _arena_done = True
    import ctypes, subprocess
    so = os.path.join(VERIF_DIR, ".deps", "verif_arena.so")
    src = os.path.join(VERIF_DIR, "vlib", "arena.c")
    try:
        if not os.path.exists(so) or os.path.getmtime(so) < os.path.getmtime(src):
            os.makedirs(os.path.dirname(so), exist_ok=True)
            tmp = so + ".%d" % os.getpid()
            subprocess.run(["cc", "-O2", "-shared", "-fPIC", "-o", tmp, src], check=True,
                           stdout=subprocess.DEVNULL, stderr=subprocess.DEVNULL)
            os.replace(tmp, so)
        ctypes.PyDLL(so).verif_install()
    except Exception:
        pass

def rmtree(path):
    """remove a scratch tree (we run as root, so modes do not get in the way); never forks"""
    import shutil
    def onerr(fn, p, exc):
        try:
            os.chmod(os.path.dirname(p), 0o700); os.chmod(p, 0o700)
            fn(p)
        except OSError:
            pass
    shutil.rmtree(path, onerror=onerr)
