"""E2 - project model, Hypothesis strategies, renderer and edit operations.

A project is plain JSON data (replayable, hashable, shrinkable):

model = {
  "recipes": [ {"name": "r0", "body": BODY, "multi": None | {"a": BODY, ...}} , ...]   # r_i depends only on r_j, j>i
  "classes": {"c0": BODY, ...},
  "defaults": {"environment": {VAR: value}, "alias": {name: path}},
  "defines": {VAR: value},                     # -DVAR=value on the command line
  "files": {"r3/a.txt": "text", ...},          # import sources below src/
  "clock": int                                 # logical clock of the last write
}
BODY = {
  "root": bool, "inherit": [class...],
  "depends": [ {"name": pkg, "use": [...]|None, "forward": bool, "env": {VAR: value}, "if": cond|None,
                "checkoutDep": bool, "tools": {t: t'}|None} ],
  "environment": {..}, "privateEnvironment": {..}, "metaEnvironment": {..},
  "provideVars": {..}, "provideDeps": [pkg...], "provideTools": {t: {"path": p, "libs": [..], "environment": {..}}},
  "steps": { "checkout"|"build"|"package": {"setup": fid|None, "script": fid|None, "finalize": fid|None,
             "vars": [..], "varsWeak": [..], "tools": [..], "toolsWeak": [..]} },
  "checkoutDeterministic": bool, "import": bool, "importPrune": bool, "urlfile": bool (file src/<recipe>/u.txt fetched by a
  url SCM with digest), "shared": bool, "relocatable": bool|None, "tooldirs": bool, "fp": bool
}
Scripts are never stored as text: a fragment is an id expanded by vlib.scripts.recorder().
"""
import os, copy, json, shutil, zlib
from hypothesis import strategies as st

from . import scripts as S

VALUES = [None, "", "0", "1", "x", "y z", "${V0:-d}", "${V1:-}", "$(eq,${V2:-},x)", "a\\'b\\\"c", "true",
          "$(is-tool-defined,t0)", "${V3+set}", "${V4:+alt}", "$(is-sandbox-enabled)"]
PLAIN_VALUES = ["", "0", "1", "x", "y z", "true"]
TOOLPATHS = [".", "bin0", "bin1"]
TOOLLIBS = [[], ["lib0"], ["lib0", "bin1"]]
USE = [None, ["result"], ["result", "deps"], ["result", "deps", "environment"], ["result", "tools"],
       ["tools"], ["environment"], ["result", "deps", "environment", "tools"], ["deps"]]
CONDS = [None, None, None, "${V0:-0}", "$(eq,${V1:-},x)", "!expr:\"${V0:-}\" == \"1\"", "!expr:\"${V3:-}\" != \"\"", "true", "0",
         "$(is-tool-defined,t1)", "${V2+1}", "$(is-sandbox-enabled)"]
STEPS = ("checkout", "build", "package")
T0 = 1_400_000_000 * 10**9

class Expr(str):
    """marker for values rendered with the YAML tag !expr"""

# ---------------------------------------------------------------------------------------
# rendering

def _yaml():
    import yaml
    class D(yaml.SafeDumper):
        pass
    D.add_representer(Expr, lambda d, v: d.represent_scalar("!expr", str(v), style='"'))
    return yaml, D

def _cond(c):
    if c is None:
        return None
    if c.startswith("!expr:"):
        return Expr(c[6:])
    return c

def _envmap(m):
    return {k: v for k, v in m.items() if v is not None}

def _certainly_nonreloc(model, recipe_name, body):
    """True if every package that runs the scripts of this body is non-relocatable by an explicit setting at the
    recipe / multiPackage level (classes are never considered: the inheriting recipe may override them)"""
    for r in model["recipes"]:
        if r["name"] != recipe_name:
            continue
        main = r["body"].get("relocatable")
        subs = list((r.get("multi") or {}).values())
        if body is r["body"]:
            if not subs:
                return main is False
            return all((b.get("relocatable") if b.get("relocatable") is not None else main) is False for b in subs)
        for b in subs:
            if body is b:
                return (b.get("relocatable") if b.get("relocatable") is not None else main) is False
    return False

def body_yaml(body, model, recipe_name):
    out = {}
    if body.get("root"): out["root"] = True
    if body.get("inherit"): out["inherit"] = list(body["inherit"])
    deps = []
    for d in body.get("depends", []):
        e = {"name": d["name"]}
        if d.get("use") is not None: e["use"] = list(d["use"])
        if d.get("forward"): e["forward"] = True
        if _envmap(d.get("env") or {}): e["environment"] = _envmap(d["env"])
        if d.get("if") is not None: e["if"] = _cond(d["if"])
        if d.get("checkoutDep"): e["checkoutDep"] = True
        if d.get("tools"): e["tools"] = dict(d["tools"])
        if d.get("inherit") is False: e["inherit"] = False
        deps.append(e if len(e) > 1 else d["name"])
    if deps: out["depends"] = deps
    for key in ("environment", "privateEnvironment", "metaEnvironment", "provideVars"):
        m = _envmap(body.get(key) or {})
        if m: out[key] = m
    if body.get("provideDeps"): out["provideDeps"] = list(body["provideDeps"])
    if body.get("provideTools"):
        pt = {}
        for t, spec in body["provideTools"].items():
            e = {"path": spec["path"]}
            if spec.get("libs"): e["libs"] = list(spec["libs"])
            if _envmap(spec.get("environment") or {}): e["environment"] = _envmap(spec["environment"])
            if spec.get("netAccess") is not None: e["netAccess"] = spec["netAccess"]
            if spec.get("fingerprint"):
                e["fingerprintScript"] = 'echo tool-fp'
                e["fingerprintIf"] = True
            pt[t] = e
        out["provideTools"] = pt
    for step in STEPS:
        sp = (body.get("steps") or {}).get(step) or {}
        for slot, key in (("setup", "Setup"), ("script", "Script"), ("finalize", "Finalize")):
            fid = sp.get(slot)
            if fid is not None:
                kind = "plain"
                if step == "package" and slot == "script" and body.get("tooldirs"): kind += "+tooldirs"
                if step == "build" and slot == "script" and body.get("fp") and \
                        recipe_name not in (model.get("no_host_taint") or ()): kind += "+fp"
                if model.get("record_pwd"):
                    # artifact mode (C07): directories of (possibly weak) tools in PATH are recorded by name only; packages
                    # that are certainly not relocatable record where they were built - unless they are consumed through a
                    # tool, whose host dependencies deliberately do not propagate to the user's Build-Id
                    kind += "+npc"
                    if step != "checkout" and slot == "script" and recipe_name not in (model.get("no_host_taint") or ()) \
                            and _certainly_nonreloc(model, recipe_name, body):
                        kind += "+nr"
                inc = (model.get("fraginc") or {}).get(str(fid))
                if inc and inc[1] not in (model.get("inc") or {}): inc = None
                out[step + key] = S.recorder(fid, step, kind, inc)
        for lst, key in (("vars", "Vars"), ("varsWeak", "VarsWeak"), ("tools", "Tools"), ("toolsWeak", "ToolsWeak")):
            if sp.get(lst): out[step + key] = list(sp[lst])
    if body.get("checkoutDeterministic"): out["checkoutDeterministic"] = True
    if body.get("import"):
        out["checkoutSCM"] = [{"scm": "import", "url": "src/" + recipe_name, "dir": "imp", "prune": bool(body.get("importPrune", True))}]
    if body.get("urlfile"):
        # a deterministic SCM: local file with digest (the digest follows the content, as a version bump in a recipe does)
        import hashlib
        data = (model.get("files") or {}).get(recipe_name + "/u.txt", "").encode()
        out.setdefault("checkoutSCM", []).append({"scm": "url", "url": "src/%s/u.txt" % recipe_name, "dir": "url",
                                                  "digestSHA1": hashlib.sha1(data).hexdigest()})
    for k in ("buildNetAccess", "packageNetAccess", "jobServer"):
        if body.get(k) is not None: out[k] = body[k]
    if body.get("auditFiles"): out["packageAuditFiles"] = dict(body["auditFiles"])
    if body.get("provideSandbox"): out["provideSandbox"] = dict(body["provideSandbox"])
    if body.get("shared"): out["shared"] = True
    if body.get("relocatable") is not None: out["relocatable"] = bool(body["relocatable"])
    if body.get("fp"):
        out["fingerprintScript"] = 'if [ -f "${VERIF_HOSTFP-/nonexistent}" ]; then while IFS= read -r l; do echo "$l"; done < "$VERIF_HOSTFP"; fi'
        out["fingerprintIf"] = True
    return out

def render(model, root, clock=None):
    """(re)write the project files below root; every file gets mtime from the logical clock.
    Files whose content did not change are left alone (as an editor would)."""
    yaml, D = _yaml()
    want = {}
    want["config.yaml"] = yaml.dump({"bobMinimumVersion": "1.0"}, Dumper=D)
    dflt = {"whitelist": list(S.WHITELIST)}
    env = _envmap(model["defaults"].get("environment") or {})
    if env: dflt["environment"] = env
    if model["defaults"].get("alias"): dflt["alias"] = dict(model["defaults"]["alias"])
    for k in ("archive", "share"):
        if model["defaults"].get(k): dflt[k] = model["defaults"][k]
    want["default.yaml"] = yaml.dump(dflt, Dumper=D, sort_keys=True)
    for r in model["recipes"]:
        doc = body_yaml(r["body"], model, r["name"])
        if r.get("multi"):
            doc["multiPackage"] = {k: body_yaml(b, model, r["name"]) for k, b in r["multi"].items()}
        want["recipes/%s.yaml" % r["name"]] = yaml.dump(doc, Dumper=D, sort_keys=True, width=10000)
    for name, body in model["classes"].items():
        want["classes/%s.yaml" % name] = yaml.dump(body_yaml(body, model, name), Dumper=D, sort_keys=True, width=10000)
    for rel, text in model["files"].items():
        want["src/" + rel] = text
    for name, text in (model.get("inc") or {}).items():
        want["recipes/inc/" + name] = text
    for r in model["recipes"]:
        bodies = [r["body"]] + list((r.get("multi") or {}).values())
        if any(b.get("import") or b.get("urlfile") for b in bodies):
            want.setdefault("src/%s/.keep" % r["name"], "")
    clock = clock if clock is not None else model.get("clock", 0)
    t = T0 + clock * 10**9
    n = 0
    # remove files that are gone
    for top in ("recipes", "classes", "src"):
        d = os.path.join(root, top)
        for dp, dn, fn in os.walk(d):
            for f in fn:
                rel = os.path.relpath(os.path.join(dp, f), root)
                if rel not in want:
                    os.unlink(os.path.join(dp, f))
    for rel, text in sorted(want.items()):
        p = os.path.join(root, rel)
        data = text.encode()
        try:
            with open(p, "rb") as f:
                if f.read() == data:
                    continue
        except FileNotFoundError:
            pass
        os.makedirs(os.path.dirname(p) or root, exist_ok=True)
        if rel.startswith("src/") and os.path.exists(p) and (zlib.crc32(("%s@%d" % (rel, clock)).encode()) & 1):
            # edit in place (as many editors do): the mtime of the directory does not change
            with open(p, "r+b") as f:
                f.truncate(0)
                f.write(data)
            n += 1
            os.utime(p, ns=(t + n * 10**7, t + n * 10**7))
            continue
        tmp = p + ".tmp"
        with open(tmp, "wb") as f:
            f.write(data)
        n += 1
        os.utime(tmp, ns=(t + n * 10**7, t + n * 10**7))
        os.replace(tmp, p)
    # prune empty source dirs
    for dp, dn, fn in os.walk(os.path.join(root, "src"), topdown=False):
        if dp != os.path.join(root, "src") and not os.listdir(dp):
            try: os.rmdir(dp)
            except OSError: pass
    os.makedirs(os.path.join(root, "recipes"), exist_ok=True)
    return n

def defines_argv(model):
    return ["-D%s=%s" % (k, v) for k, v in sorted((model.get("defines") or {}).items()) if v is not None]

def package_names(model):
    out = []
    for r in model["recipes"]:
        if r.get("multi"):
            out += ["%s-%s" % (r["name"], k) for k in r["multi"]]
        else:
            out.append(r["name"])
    return out

# ---------------------------------------------------------------------------------------
# strategies

def _steps_st(draw, fid, has_checkout, richness):
    steps = {}
    for step in STEPS:
        sp = {"setup": None, "script": None, "finalize": None, "vars": [], "varsWeak": [], "tools": [], "toolsWeak": []}
        if step == "checkout" and not has_checkout:
            steps[step] = sp
            continue
        for slot, p in (("setup", 6), ("script", 1), ("finalize", 6)):
            if draw(st.integers(0, p)) == 0 or (slot == "script" and step != "checkout") or (slot == "script" and has_checkout):
                sp[slot] = fid()
        sp["vars"] = sorted(set(draw(st.lists(st.sampled_from(S.VARS), max_size=3))))
        if richness > 0:
            sp["varsWeak"] = sorted(set(draw(st.lists(st.sampled_from(S.WEAKVARS), max_size=1))))
        steps[step] = sp
    return steps

def _env_st(draw, maxn=2, values=VALUES):
    return {k: draw(st.sampled_from(values)) for k in draw(st.lists(st.sampled_from(S.VARS), max_size=maxn, unique=True))}

def _body(draw, fid, i, n, later_pkgs, tool_providers, classes, richness, dense=False):
    b = {"root": i == 0, "inherit": [], "depends": [], "environment": {}, "privateEnvironment": {}, "metaEnvironment": {},
         "provideVars": {}, "provideDeps": [], "provideTools": {}, "checkoutDeterministic": False, "import": False,
         "shared": False, "relocatable": None, "tooldirs": False, "fp": False}
    has_checkout = draw(st.integers(0, 2)) == 0
    b["steps"] = _steps_st(draw, fid, has_checkout, richness)
    if has_checkout:
        b["checkoutDeterministic"] = draw(st.booleans())
    b["import"] = draw(st.integers(0, 3)) == 0
    if b["import"]:
        b["importPrune"] = draw(st.sampled_from([True, False, True]))
    b["urlfile"] = draw(st.integers(0, 4)) == 0
    if classes:
        b["inherit"] = draw(st.lists(st.sampled_from(sorted(classes)), max_size=2, unique=True))
    b["environment"] = _env_st(draw)
    if draw(st.integers(0, 3)) == 0: b["privateEnvironment"] = _env_st(draw, 1)
    if draw(st.integers(0, 4)) == 0: b["metaEnvironment"] = {"M0": draw(st.sampled_from(PLAIN_VALUES))}
    if draw(st.integers(0, 2)) == 0: b["provideVars"] = _env_st(draw, 2)
    # dependencies to later packages
    if later_pkgs:
        ndeps = draw(st.integers(min(2, len(later_pkgs)) if dense else (0 if i else 1), min(3, len(later_pkgs))))
        names = draw(st.lists(st.sampled_from(later_pkgs), min_size=ndeps, max_size=ndeps, unique=True))
        for nm in names:
            d = {"name": nm, "use": draw(st.sampled_from(USE)), "forward": draw(st.integers(0, 3)) == 0,
                 "env": _env_st(draw, 1) if draw(st.integers(0, 2)) == 0 else {},
                 "if": draw(st.sampled_from(CONDS)), "checkoutDep": False, "tools": None}
            b["depends"].append(d)
        if b["depends"] and draw(st.integers(0, 3)) == 0:
            b["provideDeps"] = [draw(st.sampled_from([d["name"] for d in b["depends"]]))]
    # tools: use a provider among later packages
    usable = [(p, t) for (p, t) in tool_providers if p in later_pkgs]
    if usable and draw(st.integers(0, 1)) == 0:
        p, t = draw(st.sampled_from(usable))
        b["depends"] = [x for x in b["depends"] if x["name"] != p]
        b["provideDeps"] = [x for x in b["provideDeps"] if x != p]
        b["depends"].insert(0, {"name": p, "use": ["tools"] if draw(st.booleans()) else ["result", "tools"], "forward": True,
                                "env": {}, "if": None, "checkoutDep": False, "tools": None})
        step = draw(st.sampled_from(["build", "package", "build"]))
        if t in S.WEAKTOOLS:
            b["steps"][step]["toolsWeak"] = [t]
        else:
            b["steps"][step]["tools"] = [t]
    if dense and tool_providers:
        # tools inherited from ancestors: a recipe may forward a provider (with its own parameters) to the
        # dependencies that follow it without using the tool itself, and may use a tool it only inherits
        if usable and draw(st.integers(0, 2)) == 0 and not any("tools" in (x.get("use") or []) for x in b["depends"]):
            p, t = draw(st.sampled_from(usable))
            b["depends"] = [x for x in b["depends"] if x["name"] != p]
            b["provideDeps"] = [x for x in b["provideDeps"] if x != p]
            b["depends"].insert(0, {"name": p, "use": ["tools"], "forward": True,
                                    "env": {draw(st.sampled_from(S.VARS)): draw(st.sampled_from(PLAIN_VALUES))},
                                    "if": None, "checkoutDep": False, "tools": None})
        if draw(st.integers(0, 2)) == 0 and not b["steps"]["build"]["tools"] and not b["steps"]["build"]["toolsWeak"]:
            t = draw(st.sampled_from(sorted({t for _, t in tool_providers})))
            b["steps"]["build"]["toolsWeak" if t in S.WEAKTOOLS else "tools"] = [t]
    b["shared"] = richness > 1 and draw(st.integers(0, 5)) == 0
    if draw(st.integers(0, 5)) == 0: b["relocatable"] = draw(st.booleans())
    return b

def model_st(min_recipes=2, max_recipes=7, richness=1, multi=True, dense=False):
    """richness 0: structure only, 1: classes/tools/weak vars, 2: + shared"""
    @st.composite
    def mk(draw):
        counter = [0]
        def fid():
            counter[0] += 1
            return counter[0]
        n = draw(st.integers(min_recipes, max_recipes))
        classes = {}
        if richness > 0:
            for ci in range(draw(st.integers(0, 2))):
                cb = {"inherit": [], "steps": {}, "environment": {}, "checkoutDeterministic": False}
                cb["steps"] = {}
                for step in ("build", "package"):
                    sp = {"setup": None, "script": None, "finalize": None, "vars": [], "varsWeak": [], "tools": [], "toolsWeak": []}
                    for slot in ("setup", "script", "finalize"):
                        if draw(st.integers(0, 3)) == 0:
                            sp[slot] = fid()
                    sp["vars"] = sorted(set(draw(st.lists(st.sampled_from(S.VARS), max_size=2))))
                    cb["steps"][step] = sp
                if ci and draw(st.integers(0, 2)) == 0:
                    cb["inherit"] = ["c0"]
                cb["environment"] = _env_st(draw, 1)
                classes["c%d" % ci] = cb
        # decide names first (later recipes first so that earlier ones can refer to them)
        names, multis = [], []
        for i in range(n):
            names.append("r%d" % i)
            multis.append((["a", "b", "c"] if draw(st.integers(0, 2)) == 0 else ["a", "b"])
                          if (multi and i and draw(st.integers(0, 5)) == 0) else None)
        pkgs_of = [["r%d-%s" % (i, k) for k in multis[i]] if multis[i] else ["r%d" % i] for i in range(n)]
        # tool providers: some later recipes
        tool_providers = []
        provider_of = {}
        if richness > 0 and n > 1:
            for t in S.TOOLS + S.WEAKTOOLS:
                if draw(st.integers(0, 2)) == 0:
                    i = draw(st.integers(1, n - 1))
                    provider_of.setdefault(i, []).append(t)
        recipes = [None] * n
        for i in reversed(range(n)):
            later = [p for j in range(i + 1, n) for p in pkgs_of[j]]
            tp = [(p, t) for j, ts in provider_of.items() if j > i for t in ts for p in pkgs_of[j][:1]]
            body = _body(draw, fid, i, n, later, tp, classes, richness, dense)
            if i in provider_of:
                for t in provider_of[i]:
                    body["provideTools"][t] = {"path": draw(st.sampled_from(TOOLPATHS)), "libs": draw(st.sampled_from(TOOLLIBS)),
                                               "environment": {draw(st.sampled_from(S.TOOLENV)): draw(st.sampled_from(PLAIN_VALUES))}
                                               if draw(st.booleans()) else {}}
                body["tooldirs"] = True
                if dense:
                    body["steps"]["package"]["vars"] = sorted(set(body["steps"]["package"]["vars"]) | set(S.VARS[:3]))
            multi_b = None
            if multis[i]:
                multi_b = {}
                for k in multis[i]:
                    mb = {"depends": [], "environment": _env_st(draw, 1), "steps": {}, "privateEnvironment": {}, "metaEnvironment": {},
                          "provideVars": {}, "provideDeps": [], "provideTools": {}}
                    if k != "a" and draw(st.booleans()):
                        mb["steps"] = {"build": {"setup": None, "script": fid(), "finalize": None, "vars": [], "varsWeak": [], "tools": [], "toolsWeak": []}}
                    if later and draw(st.booleans()):
                        mb["depends"] = [{"name": draw(st.sampled_from(later)), "use": None, "forward": False, "env": {}, "if": None,
                                          "checkoutDep": False, "tools": None}]
                    multi_b[k] = mb
            recipes[i] = {"name": names[i], "body": body, "multi": multi_b}
        files = {}
        for i in range(n):
            if recipes[i]["body"].get("urlfile"):
                files["r%d/u.txt" % i] = "url content %d\n" % fid()
            if recipes[i]["body"]["import"]:
                for fn in draw(st.lists(st.sampled_from(["a.txt", "sub/c.txt", "b.txt", "sub/deep/d.txt"]), min_size=1, max_size=3, unique=True)):
                    files["r%d/%s" % (i, fn)] = "content %d\n" % fid()
        inc, fraginc = {}, {}
        if richness > 0 and draw(st.integers(0, 2)) == 0:
            for nm in draw(st.lists(st.sampled_from(["a.txt", "b.txt"]), min_size=1, max_size=2, unique=True)):
                inc[nm] = "inc %d\n" % fid()
            for f in draw(st.lists(st.integers(1, max(1, counter[0])), max_size=3, unique=True)):
                fraginc[str(f)] = [draw(st.sampled_from(["q", "q", "q", "f"])), draw(st.sampled_from(sorted(inc)))]
        model = {"recipes": recipes, "classes": classes, "inc": inc, "fraginc": fraginc,
                 "defaults": {"environment": _env_st(draw, 2, PLAIN_VALUES + [None]), "alias": {}},
                 "defines": _env_st(draw, 1, PLAIN_VALUES) if draw(st.integers(0, 2)) == 0 else {},
                 "files": files, "clock": 0, "nextfid": counter[0] + 1}
        return model
    return mk()

# ---------------------------------------------------------------------------------------
# edits: model -> model, chosen by small integers (resolved modulo what exists)

EDIT_KINDS = ["inc_mod", "inc_toggle", "frag", "frag", "move_frag", "var_value", "var_value", "varlist", "varlist", "dep_add", "dep_remove",
              "dep_param", "dep_swap", "provide_var", "tool_attr", "tool_use", "file_mod", "file_add", "file_del",
              "define", "default_env", "class_frag", "provide_deps", "flag", "revert", "variant"]

def _bodies(model):
    """[(label, body, recipe_index)] of all recipe-level bodies (multiPackage sub bodies included)"""
    out = []
    for i, r in enumerate(model["recipes"]):
        out.append((r["name"], r["body"], i))
        for k, b in (r.get("multi") or {}).items():
            out.append(("%s-%s" % (r["name"], k), b, i))
    return out

def _later_pkgs(model, i):
    out = []
    for r in model["recipes"][i + 1:]:
        out += ["%s-%s" % (r["name"], k) for k in r["multi"]] if r.get("multi") else [r["name"]]
    return out

def _step(body, step):
    return body.setdefault("steps", {}).setdefault(step, {"setup": None, "script": None, "finalize": None, "vars": [],
                                                          "varsWeak": [], "tools": [], "toolsWeak": []})

def apply_edit(model, edit, history):
    """edit = [kind, a, b, c, d]; history = list of earlier models (for revert). Returns (new model, description)."""
    m = copy.deepcopy(model)
    m["clock"] = model.get("clock", 0) + 10
    kind, a, b, c, d = (list(edit) + [0, 0, 0, 0])[:5]
    bodies = _bodies(m)
    def newfid():
        f = m.get("nextfid", 1000); m["nextfid"] = f + 1; return f
    lab, body, ri = bodies[a % len(bodies)]
    if kind == "inc_mod":
        inc = m.setdefault("inc", {})
        nm = ["a.txt", "b.txt"][b % 2]
        if nm in inc and c % 4 == 0 and not any(v[1] == nm for v in (m.get("fraginc") or {}).values()):
            del inc[nm]
            return m, "delete include file %s" % nm
        inc[nm] = ("inc %d\n" % newfid()) if c % 2 else inc.get(nm, "") + "more\n"
        return m, "modify include file %s" % nm
    if kind == "inc_toggle":
        inc = m.setdefault("inc", {})
        if not inc:
            inc["a.txt"] = "inc %d\n" % newfid()
        fi = m.setdefault("fraginc", {})
        # pick an existing fragment of the chosen body
        fr = [sp.get(sl) for sp in (body.get("steps") or {}).values() for sl in ("setup", "script", "finalize") if sp.get(sl) is not None]
        if not fr: return m, "noop"
        f = str(fr[b % len(fr)])
        if f in fi:
            del fi[f]
            return m, "%s fragment %s drops its include" % (lab, f)
        fi[f] = [["q", "q", "f"][c % 3], sorted(inc)[d % len(inc)]]
        return m, "%s fragment %s includes %s (%s)" % (lab, f, fi[f][1], fi[f][0])
    if kind == "frag":
        step = STEPS[b % 3]
        slot = ("script", "setup", "finalize")[c % 3]
        sp = _step(body, step)
        if sp.get(slot) is not None and d % 3 == 0 and not (step == "checkout") and slot != "script":
            sp[slot] = None
            return m, "remove %s %s%s" % (lab, step, slot)
        if step == "checkout" and sp.get("script") is None and slot != "script":
            slot = "script"
        sp[slot] = newfid()
        return m, "change %s %s%s" % (lab, step, slot)
    if kind == "move_frag":
        step = STEPS[1 + b % 2]
        sp = _step(body, step)
        slots = [s for s in ("setup", "script", "finalize") if sp.get(s) is not None]
        if not slots: return m, "noop"
        src = slots[c % len(slots)]
        dst = ("setup", "script", "finalize")[d % 3]
        if dst == src or (src == "script"): return m, "noop"
        sp[src], sp[dst] = sp.get(dst), sp[src]
        return m, "move %s %s %s->%s" % (lab, step, src, dst)
    if kind == "var_value":
        site = ("environment", "privateEnvironment", "provideVars", "metaEnvironment")[b % 4]
        var = S.VARS[c % len(S.VARS)] if site != "metaEnvironment" else "M0"
        val = VALUES[d % len(VALUES)]
        body.setdefault(site, {})[var] = val
        return m, "%s %s.%s=%r" % (lab, site, var, val)
    if kind == "varlist":
        step = STEPS[b % 3]
        sp = _step(body, step)
        weak = d % 4 == 0
        var = (S.WEAKVARS if weak else S.VARS)[c % (len(S.WEAKVARS) if weak else len(S.VARS))]
        lst = sp.setdefault("varsWeak" if weak else "vars", [])
        if var in lst: lst.remove(var)
        else: lst.append(var); lst.sort()
        return m, "%s toggle %s in %s%s" % (lab, var, step, "VarsWeak" if weak else "Vars")
    if kind == "dep_add":
        later = _later_pkgs(m, ri)
        have = {x["name"] for x in body.get("depends", [])}
        cand = [p for p in later if p not in have]
        if not cand: return m, "noop"
        body.setdefault("depends", []).insert(c % (len(body["depends"]) + 1),
            {"name": cand[b % len(cand)], "use": USE[d % len(USE)], "forward": False, "env": {}, "if": None, "checkoutDep": False, "tools": None})
        return m, "%s add dep %s" % (lab, cand[b % len(cand)])
    if kind == "dep_remove":
        deps = body.get("depends", [])
        if not deps: return m, "noop"
        x = deps.pop(b % len(deps))
        if x["name"] in body.get("provideDeps", []): body["provideDeps"].remove(x["name"])
        return m, "%s remove dep %s" % (lab, x["name"])
    if kind == "variant":
        # change the value a consumer passes to a dependency: one more / one less / another variant of that recipe
        cands = [(l, x) for (l, bd, _) in bodies for x in bd.get("depends", []) if x.get("env")]
        if not cands: return m, "noop"
        l, x = cands[a % len(cands)]
        var = sorted(x["env"])[b % len(x["env"])]
        x["env"][var] = ["a", "b", "c", "d", "e", "x", "0"][c % 7]
        return m, "%s passes %s=%s to %s" % (l, var, x["env"][var], x["name"])
    if kind == "dep_param":
        deps = body.get("depends", [])
        if not deps: return m, "noop"
        x = deps[b % len(deps)]
        w = c % 5
        if w == 0: x["use"] = USE[d % len(USE)]
        elif w == 1: x["forward"] = not x.get("forward")
        elif w == 2: x.setdefault("env", {})[S.VARS[d % len(S.VARS)]] = VALUES[(d // 5) % len(VALUES)]
        elif w == 3: x["if"] = CONDS[d % len(CONDS)]
        else: x["checkoutDep"] = not x.get("checkoutDep")
        return m, "%s re-parameterise dep %s (%d)" % (lab, x["name"], w)
    if kind == "dep_swap":
        deps = body.get("depends", [])
        if len(deps) < 2: return m, "noop"
        i = b % (len(deps) - 1)
        deps[i], deps[i + 1] = deps[i + 1], deps[i]
        return m, "%s swap deps %d/%d" % (lab, i, i + 1)
    if kind == "provide_var":
        var = S.VARS[b % len(S.VARS)]
        body.setdefault("provideVars", {})[var] = VALUES[c % len(VALUES)]
        return m, "%s provideVars.%s" % (lab, var)
    if kind == "provide_deps":
        deps = [x["name"] for x in body.get("depends", [])]
        if not deps: return m, "noop"
        nm = deps[b % len(deps)]
        pd = body.setdefault("provideDeps", [])
        if nm in pd: pd.remove(nm)
        else: pd.append(nm)
        return m, "%s toggle provideDeps %s" % (lab, nm)
    if kind == "tool_attr":
        prov = [(l, bd) for l, bd, _ in bodies if bd.get("provideTools")]
        if not prov: return m, "noop"
        l, bd = prov[a % len(prov)]
        t = sorted(bd["provideTools"])[b % len(bd["provideTools"])]
        spec = bd["provideTools"][t]
        w = c % 3
        if w == 0: spec["path"] = TOOLPATHS[d % len(TOOLPATHS)]
        elif w == 1: spec["libs"] = TOOLLIBS[d % len(TOOLLIBS)]
        else: spec.setdefault("environment", {})[S.TOOLENV[d % 2]] = PLAIN_VALUES[(d // 2) % len(PLAIN_VALUES)]
        return m, "%s tool %s attr %d" % (l, t, w)
    if kind == "tool_use":
        step = STEPS[1 + b % 2]
        sp = _step(body, step)
        cur = sp.get("tools") or []
        if cur:
            sp["tools"] = []
            return m, "%s stop using %s in %s" % (lab, cur, step)
        # only tools that some dependency makes available
        avail = []
        for x in body.get("depends", []):
            if x.get("use") and "tools" in x["use"]:
                for l, bd, _ in bodies:
                    if l == x["name"]:
                        avail += [t for t in bd.get("provideTools", {}) if t in S.TOOLS]
        if not avail: return m, "noop"
        sp["tools"] = [avail[c % len(avail)]]
        return m, "%s use tool %s in %s" % (lab, sp["tools"], step)
    if kind in ("file_mod", "file_add", "file_del"):
        imps = [r["name"] for r in m["recipes"] if r["body"].get("import") or r["body"].get("urlfile")]
        if not imps: return m, "noop"
        rn = imps[a % len(imps)]
        mine = sorted(k for k in m["files"] if k.startswith(rn + "/"))
        if kind == "file_add":
            if not next(r for r in m["recipes"] if r["name"] == rn)["body"].get("import"):
                return m, "noop"
            fn = "%s/%s" % (rn, ["a.txt", "b.txt", "sub/c.txt", "d.txt", "sub/e.txt"][b % 5])
            m["files"][fn] = "content %d\n" % newfid()
            return m, "write %s" % fn
        if not mine: return m, "noop"
        fn = mine[b % len(mine)]
        if kind == "file_del":
            owner = next(r for r in m["recipes"] if r["name"] == rn)
            if not owner["body"].get("importPrune", True) or fn.endswith("/u.txt"):
                return m, "noop"            # without prune deleted files legitimately stay in the workspace
            del m["files"][fn]
            return m, "delete %s" % fn
        # same size rewrite or different size
        m["files"][fn] = ("content %d\n" % newfid()) if c % 2 else m["files"][fn] + "more\n"
        return m, "modify %s" % fn
    if kind == "define":
        var = S.VARS[b % len(S.VARS)]
        val = [None] + PLAIN_VALUES
        m.setdefault("defines", {})[var] = val[c % len(val)]
        if m["defines"][var] is None: del m["defines"][var]
        return m, "-D%s" % var
    if kind == "default_env":
        var = S.VARS[b % len(S.VARS)]
        m["defaults"].setdefault("environment", {})[var] = ([None] + PLAIN_VALUES)[c % (1 + len(PLAIN_VALUES))]
        return m, "default.yaml environment.%s" % var
    if kind == "class_frag":
        if not m["classes"]: return m, "noop"
        cn = sorted(m["classes"])[a % len(m["classes"])]
        sp = _step(m["classes"][cn], STEPS[1 + b % 2])
        slot = ("script", "setup", "finalize")[c % 3]
        sp[slot] = None if (sp.get(slot) is not None and d % 3 == 0) else newfid()
        return m, "class %s %s %s" % (cn, STEPS[1 + b % 2], slot)
    if kind == "flag":
        w = b % 3
        if w == 0: body["relocatable"] = [None, True, False][c % 3]
        elif w == 1: body["checkoutDeterministic"] = not body.get("checkoutDeterministic")
        else: body["shared"] = not body.get("shared")
        return m, "%s flag %d" % (lab, w)
    if kind == "revert":
        if not history: return m, "noop"
        old = copy.deepcopy(history[a % len(history)])
        old["clock"] = m["clock"]
        old["nextfid"] = max(old.get("nextfid", 0), m.get("nextfid", 0))
        # an import without prune never removes files from the workspace: the reverted state keeps them
        keep = {r["name"] for r in old["recipes"] if r["body"].get("import") and not r["body"].get("importPrune", True)}
        for fn, txt in m["files"].items():
            if fn.split("/")[0] in keep and fn not in old["files"]:
                old["files"][fn] = txt
        return old, "revert to state %d" % (a % len(history))
    raise AssertionError(kind)

I = st.integers(0, 30)
edit_st = st.tuples(st.sampled_from(EDIT_KINDS), I, I, I, I).map(list)
# histories for checks that build: source edits (in place, in sub-directories) are what users do most
src_edit_st = st.tuples(st.sampled_from(["file_mod", "file_mod", "file_mod", "file_add", "file_del"]), I, I, I, I).map(list)
build_edit_st = st.one_of(edit_st, edit_st, src_edit_st)

def apply_history(model, edits):
    """-> list of (model, description) after each edit"""
    states = []
    hist = [model]
    cur = model
    for e in edits:
        cur, desc = apply_edit(cur, e, hist)
        hist.append(cur)
        states.append((cur, desc))
    return states


# ---------------------------------------------------------------------------------------
# "twins": leaf recipes that carry the same few fragments in different Setup/Script/Finalize
# placements across a class and the recipe (the placement dimension of C02/C03/C07)

SLOTS = [("c", "setup"), ("c", "script"), ("c", "finalize"), ("r", "setup"), ("r", "script"), ("r", "finalize")]

twins_st = st.lists(st.lists(st.tuples(st.integers(1, 3), st.integers(0, 5)), min_size=2, max_size=3,
                             unique_by=lambda t: t[1]).map(lambda l: [list(x) for x in l]),
                    min_size=2, max_size=4)

def _empty_step():
    return {"setup": None, "script": None, "finalize": None, "vars": [], "varsWeak": [], "tools": [], "toolsWeak": []}

def add_twins(model, twins, base_fid=900):
    """returns a copy of model with recipes tw<i> (+ classes k<i>) appended and made dependencies of r0.
    twins: list of arrangements; arrangement = list of [fragment number 1..3, slot index 0..5]"""
    m = copy.deepcopy(model)
    for i, arr in enumerate(twins):
        cb = {"inherit": [], "environment": {}, "steps": {"build": _empty_step(), "package": _empty_step()}}
        rb = {"root": False, "inherit": ["k%d" % i], "depends": [], "environment": {}, "privateEnvironment": {},
              "metaEnvironment": {}, "provideVars": {}, "provideDeps": [], "provideTools": {}, "checkoutDeterministic": False,
              "import": False, "shared": False, "relocatable": None, "tooldirs": False, "fp": False,
              "steps": {"checkout": _empty_step(), "build": _empty_step(), "package": _empty_step()}}
        rb["steps"]["package"]["script"] = base_fid
        for frag, slot in arr:
            who, name = SLOTS[slot % 6]
            (cb if who == "c" else rb)["steps"]["build"][name] = base_fid + frag
        m["classes"]["k%d" % i] = cb
        m["recipes"].append({"name": "tw%d" % i, "body": rb, "multi": None})
        m["recipes"][0]["body"]["depends"].append({"name": "tw%d" % i, "use": ["result"], "forward": False, "env": {},
                                                   "if": None, "checkoutDep": False, "tools": None})
    return m


def add_toolchains(model, variant, base_fid=800):
    """returns a copy of the model with the most typical Bob layout appended: the same sub-tree built under two tool
    chains.  Recipes tcA / tcB provide different variants of one tool, tw consumes it, tm depends on tw without using
    the tool itself, ts switches to tcB for its dependencies; the root sees tcA.  variant (0..5) chooses the tool name and
    the order in which the root visits tw / tm / ts (the visiting order decides which package calculation is served
    from Bob's in-memory cache)."""
    m = copy.deepcopy(model)
    tool = "t0" if variant % 2 == 0 else "t1"
    def body(**kw):
        b = {"root": False, "inherit": [], "depends": [], "environment": {}, "privateEnvironment": {},
             "metaEnvironment": {}, "provideVars": {}, "provideDeps": [], "provideTools": {}, "checkoutDeterministic": False,
             "import": False, "shared": False, "relocatable": None, "tooldirs": False, "fp": False,
             "steps": {"checkout": _empty_step(), "build": _empty_step(), "package": _empty_step()}}
        b.update(kw)
        return b
    def dep(name, use, forward=False):
        return {"name": name, "use": use, "forward": forward, "env": {}, "if": None, "checkoutDep": False, "tools": None}
    providers = []
    for i, nm in enumerate(("tcA", "tcB")):
        b = body(tooldirs=True, provideTools={tool: {"path": ".", "libs": []}})
        b["steps"]["package"]["script"] = base_fid + i
        providers.append({"name": nm, "body": b, "multi": None})
    w = body()
    w["steps"]["build"]["script"] = base_fid + 2
    w["steps"]["build"]["tools"] = [tool]
    w["steps"]["package"]["script"] = base_fid + 3
    mid = body(depends=[dep("tw", ["result"])])
    mid["steps"]["build"]["script"] = base_fid + 4
    mid["steps"]["package"]["script"] = base_fid + 5
    sub = body(depends=[dep("tcB", ["tools"], True), dep("tm", ["result"])])
    sub["steps"]["build"]["script"] = base_fid + 6
    sub["steps"]["package"]["script"] = base_fid + 7
    # r_i may only depend on r_j with j > i
    m["recipes"] += [{"name": "ts", "body": sub, "multi": None}, {"name": "tm", "body": mid, "multi": None},
                     {"name": "tw", "body": w, "multi": None}] + providers
    order = [["tw", "tm", "ts"], ["tm", "ts"], ["tw", "ts", "tm"]][(variant // 2) % 3]
    root = m["recipes"][0]["body"]
    have = {d["name"] for d in root["depends"]}
    root["depends"] = [d for d in root["depends"]] + [dep("tcA", ["tools"], True)] + [dep(n, ["result"]) for n in order if n not in have]
    m["nextfid"] = max(m.get("nextfid", 0), base_fid + 10)
    return m


def _plain_body(**kw):
    b = {"root": False, "inherit": [], "depends": [], "environment": {}, "privateEnvironment": {},
         "metaEnvironment": {}, "provideVars": {}, "provideDeps": [], "provideTools": {}, "checkoutDeterministic": False,
         "import": False, "shared": False, "relocatable": None, "tooldirs": False, "fp": False,
         "steps": {"checkout": _empty_step(), "build": _empty_step(), "package": _empty_step()}}
    b.update(kw)
    return b

def _dep(name, use=None, env=None):
    return {"name": name, "use": use, "forward": False, "env": dict(env or {}), "if": None, "checkoutDep": False, "tools": None}

def add_variants(model, n, base_fid=700):
    """one recipe (vl, consumes V0 in its build step) in n variants: consumers vc0..vc<n-1> pass different values of V0;
    the root depends on all consumers.  Later 'dep_param' edits of the consumers add, remove and re-number variants."""
    m = copy.deepcopy(model)
    vals = ["a", "b", "c", "d", "e"]
    lib = _plain_body()
    lib["steps"]["build"]["script"] = base_fid
    lib["steps"]["build"]["vars"] = ["V0"]
    lib["steps"]["package"]["script"] = base_fid + 1
    cons = []
    for i in range(n):
        c = _plain_body(depends=[_dep("vl", ["result"], {"V0": vals[i % len(vals)]})])
        c["steps"]["build"]["script"] = base_fid + 2 + 2 * i
        c["steps"]["package"]["script"] = base_fid + 3 + 2 * i
        cons.append({"name": "vc%d" % i, "body": c, "multi": None})
    m["recipes"] += cons + [{"name": "vl", "body": lib, "multi": None}]
    root = m["recipes"][0]["body"]
    have = {d["name"] for d in root["depends"]}
    root["depends"] += [_dep("vc%d" % i, ["result"]) for i in range(n) if "vc%d" % i not in have]
    m["nextfid"] = max(m.get("nextfid", 0), base_fid + 20)
    return m

def add_clones(model, n=2, base_fid=760):
    """identical packages from different recipes: recipes cl0..cl<n-1> with the very same steps (same fragments, no
    sources); the root depends on all of them.  Their steps have equal Variant-Ids."""
    m = copy.deepcopy(model)
    for i in range(n):
        b = _plain_body()
        b["steps"]["build"]["script"] = base_fid
        b["steps"]["package"]["script"] = base_fid + 1
        m["recipes"].append({"name": "cl%d" % i, "body": b, "multi": None})
    root = m["recipes"][0]["body"]
    have = {d["name"] for d in root["depends"]}
    root["depends"] += [_dep("cl%d" % i, ["result"]) for i in range(n) if "cl%d" % i not in have]
    m["nextfid"] = max(m.get("nextfid", 0), base_fid + 10)
    return m


def add_multi_cross(model, perm, base_fid=780):
    """a multiPackage recipe whose variants depend on each other through another recipe (acyclic on package level only):
    mx-two -> xx -> mx-one, mx-three is a leaf; the root depends on the three variants in the order chosen by perm."""
    import itertools
    m = copy.deepcopy(model)
    main = _plain_body()
    main["steps"]["build"]["script"] = base_fid
    main["steps"]["package"]["script"] = base_fid + 1
    def sub(deps):
        return {"depends": deps, "environment": {}, "steps": {}, "privateEnvironment": {}, "metaEnvironment": {},
                "provideVars": {}, "provideDeps": [], "provideTools": {}}
    multi = {"one": sub([]), "two": sub([_dep("xx", ["result"])]), "three": sub([])}
    xx = _plain_body(depends=[_dep("mx-one", ["result"])])
    xx["steps"]["build"]["script"] = base_fid + 2
    xx["steps"]["package"]["script"] = base_fid + 3
    m["recipes"] += [{"name": "mx", "body": main, "multi": multi}, {"name": "xx", "body": xx, "multi": None}]
    order = list(itertools.permutations(["mx-one", "mx-two", "mx-three"]))[perm % 6]
    root = m["recipes"][0]["body"]
    have = {d["name"] for d in root["depends"]}
    root["depends"] += [_dep(n, ["result"]) for n in order if n not in have]
    m["nextfid"] = max(m.get("nextfid", 0), base_fid + 10)
    return m
