"""E5 - parse a rendered project in-process and dump the package graph through the public API."""
import os, io, sys, contextlib

def _fmt(step, props):
    return os.path.join("ws", step.getPackage().getName().replace("/", "_"), step.getLabel(), step.getVariantId().hex()[:8])

@contextlib.contextmanager
def in_dir(d):
    cwd = os.getcwd()
    os.chdir(d)
    so, se = sys.stdout, sys.stderr
    sys.stdout = sys.stderr = io.StringIO()
    try:
        yield
    finally:
        sys.stdout, sys.stderr = so, se
        os.chdir(cwd)

def load(project, defines=None, sandbox=False, formatter=None, config_files=(), stable_paths=None):
    """-> (RecipeSet, PackageSet).  Raises bob.errors.BobError for rejected projects.
    Must be called with cwd == project (use in_dir)."""
    from bob.input import RecipeSet
    from bob.builder import LocalBuilder
    rs = RecipeSet()
    rs.defineHook('releaseNameFormatter', LocalBuilder.releaseNameFormatter)
    rs.defineHook('developNameFormatter', LocalBuilder.developNameFormatter)
    rs.defineHook('developNamePersister', None)
    rs.setConfigFiles(list(config_files))
    rs.parse(dict(defines or {}))
    ps = rs.generatePackages(formatter or _fmt, sandbox, stable_paths) if stable_paths is not None else \
        rs.generatePackages(formatter or _fmt, sandbox)
    return rs, ps

def step_dump(step, with_paths=False):
    if not step.isValid():
        return {"valid": False}
    d = {
        "valid": True,
        "vid": step.getVariantId().hex(),
        "script": step.getScript(),
        "digestScript": step.getDigestScript(),
        "env": dict(step.getEnv()),
        "tools": {n: {"path": t.getPath(), "libs": list(t.getLibs()), "step": t.getStep().getVariantId().hex(),
                      "env": dict(t.getEnvironment() or {})}
                  for n, t in sorted(step.getTools().items())},
        "args": [(a.getVariantId().hex() if a.isValid() else None) for a in step.getArguments()],
        "deterministic": step.isDeterministic(),
    }
    sb = step.getSandbox()
    d["sandbox"] = None if sb is None else {"step": sb.getStep().getVariantId().hex(), "paths": list(sb.getPaths()),
                                            "mounts": [list(m) for m in sb.getMounts()], "env": dict(sb.getEnvironment()),
                                            "enabled": sb.isEnabled()}
    if with_paths:
        d["workspace"] = step.getWorkspacePath()
    return d

def package_dump(pkg, with_paths=False):
    return {
        "name": pkg.getName(), "recipe": pkg.getRecipe().getName(),
        "meta": dict(pkg.getMetaEnv()), "shared": pkg.isShared(), "relocatable": pkg.isRelocatable(),
        "checkout": step_dump(pkg.getCheckoutStep(), with_paths),
        "build": step_dump(pkg.getBuildStep(), with_paths),
        "package": step_dump(pkg.getPackageStep(), with_paths),
    }

def walk(root, limit=4000):
    """yield (stack tuple, package, via) over the tree expansion of the graph, root first.
    via: 'direct' | 'indirect'"""
    out = []
    todo = [((), root, "root")]
    while todo:
        stack, pkg, via = todo.pop()
        out.append((stack, pkg, via))
        if len(out) > limit:
            break
        seen = set()
        kids = []
        for s in pkg.getDirectDepSteps():
            p = s.getPackage()
            if p.getName() not in seen:
                seen.add(p.getName()); kids.append((p, "direct"))
        for s in pkg.getIndirectDepSteps():
            p = s.getPackage()
            if p.getName() not in seen:
                seen.add(p.getName()); kids.append((p, "indirect"))
        for p, v in reversed(kids):
            todo.append((stack + (p.getName(),), p, v))
    return out

def graph_dump(ps, with_paths=False, limit=4000):
    """stack -> package dump (virtual root excluded)"""
    root = ps.getRootPackage()
    out = {}
    for stack, pkg, via in walk(root, limit):
        if not stack:
            continue
        out["/".join(stack)] = dict(package_dump(pkg, with_paths), via=via)
    return out
