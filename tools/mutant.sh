#!/bin/bash
# usage: tools/mutant.sh <name> <file-relative-to-repo> <python-expr-old> <python-expr-new> -- <check args>
# creates a scratch worktree of /repo HEAD, replaces OLD by NEW (exactly one occurrence) in FILE, runs the check, removes it
set -e
name=$1; file=$2; old=$3; new=$4; shift 4; [ "$1" = "--" ] && shift
wt=/var/tmp/mut-$name
git -C /repo worktree remove --force $wt 2>/dev/null || true
git -C /repo worktree add -q --detach $wt HEAD
/venv/bin/python - "$wt/$file" "$old" "$new" <<'PY'
import sys
p, old, new = sys.argv[1:4]
s = open(p).read()
assert s.count(old) == 1, "pattern occurs %d times" % s.count(old)
open(p, "w").write(s.replace(old, new))
PY
(cd /verif && VERIF_EVIDENCE_DIR=/var/tmp/verif-scratch-evidence VERIF_REPLAY_DIR=/var/tmp/verif-scratch-replay VERIF_REPO=$wt /venv/bin/python run.py "$@" 2>&1 | grep -v "^Falsifying\|^    \|^)" | cut -c1-400 | tail -6) || true
git -C /repo worktree remove --force $wt
