#!/bin/bash
# usage: tools/seedtest.sh <patch.diff> <check args...>
# applies the patch to a scratch worktree of /repo HEAD, runs the check against it (VERIF_REPO), removes the worktree
patch=$(realpath $1); shift
wt=/var/tmp/seedwt-$$
git -C /repo worktree add -q --detach $wt HEAD || exit 2
if ! git -C $wt apply --3way $patch 2>/tmp/seedtest.err; then
    echo "PATCH DOES NOT APPLY: $(head -3 /tmp/seedtest.err)"; git -C /repo worktree remove --force $wt; exit 3
fi
(cd /verif && VERIF_EVIDENCE_DIR=/var/tmp/verif-scratch-evidence VERIF_REPLAY_DIR=/var/tmp/verif-scratch-replay VERIF_REPO=$wt /venv/bin/python run.py "$@" 2>&1 | grep -v "^Falsifying\|^    \|^)\|^  File\|^Traceback" | cut -c1-500 | tail -5)
git -C /repo worktree remove --force $wt
