#!/venv/bin/python
"""Regenerate /verif/MANIFEST.json from the table below and validate it."""
import json, os, sys, glob

HERE = os.path.dirname(os.path.dirname(os.path.abspath(__file__)))

# id -> (level, technique, level text, level note, design ref, engine)
CHECKS = {
 "C17": ("exploration",
         "Hypothesis grammar-based generation vs. reference evaluator (differential), metamorphic infix/function-form equivalence, raw-string robustness",
         "Generated expression trees of the documented substitution language are rendered with generated quoting choices "
         "and compared with a reference evaluator written from the manual; boolean trees are compared in infix and "
         "function-call spelling; raw strings and deep nesting must give value or ParseError. ~100k cases per quick run. "
         "Exploration is the right level: the language is infinite and the oracle is an independent executable reference.",
         "Trusted: the reference evaluator in vlib/strlang.py (written from the manual), Python's re for match/resubst. "
         "Cases the manual leaves undefined are skipped and counted.",
         "3 (C17)", "E8 strlang"),
 "C11": ("exploration",
         "Hypothesis operation sequences on a real directory; differential (cached vs uncached hash) + bijection canonical-form<->hash over all visited states (independent canonicaliser)",
         "After every generated file-system operation the cached and the uncached directory hash must agree and the "
         "map canonical tree <-> hash must stay a bijection over all states of the run and over re-created copies "
         "(other creation order/timestamps). ~4000 sequences of up to 42 operations per quick run.",
         "Trusted: vlib/treecanon.py as definition of 'names, types, permission bits, contents, link targets'; the kernel "
         "updates ctime on every change and the harness gives every mutation a fresh mtime (the property's stated premise).",
         "3 (C11)", "E4 treecanon"),
 "C10": ("fault_enumeration",
         "Hypothesis API-call sequences; file-operation trace with crash injection at every prefix (kill images) and generated garbling of unsynced data (power-loss images); oracle = recovered observable snapshot is an element of the allowed snapshot set",
         "Every prefix of the file-operation trace of generated _BobState call sequences is turned into a kill image "
         "and into power-loss images; a fresh start must not raise and must observe one of the saved snapshots, not "
         "older than the end of the last completed invocation. Single-writer refusal is checked in the same sequences. "
         "Crash points are enumerated exhaustively per sequence (sampled for >60 operations in the quick tier).",
         "Kill behaviour is real (exact files); power loss is a model (unsynced contents arbitrary, last rename may be "
         "lost). The sqlite build-id cache is not part of the property and not covered.",
         "3 (C10)", "own tracer (checks/c10_state.py)"),
 "C08": ("exploration",
         "Hypothesis tree/mutation/hostile-member generators; round-trip oracle (independent canonicaliser + hashDirectory), corruption oracle 'rejected or identical' through the real download path and end to end through bob dev --download=forced, confinement oracle via canary directory diff",
         "Generated trees are packed and extracted through LocalArchive; generated corruptions (truncation at generated / in thorough "
         "every length, bit flips, structural rewrites) must be rejected or yield an identical result, at API level and end to end; "
         "archives from a grammar of hostile members must not change anything outside workspace and audit file.",
         "Trusted: vlib/treecanon.py; Python's tarfile/gzip to build hostile archives. http/azure back-ends are not exercised. "
         "Extraction that blocks on a fifo member (denial of service) is counted, not reported.",
         "3 (C08)", "E4 treecanon, E1 bobproc"),
 "C19": ("exploration",
         "Hypothesis archive+history generation; reference evaluator for the retention language with validity predicate for LIMIT/ORDER BY ties (model-based oracle), executed through the real `bob archive` command line",
         "Generated archives of real artifacts and histories of scan/add/remove/re-upload/clean/find commands with generated "
         "expression lists; after every command the files on disk / the printed set must be a valid outcome of a reference "
         "evaluator written from the manual, evaluated on the actual archive content (index transparency).",
         "Trusted: the reference evaluator in checks/c19_retention.py. Cases the manual leaves open (undefined == undefined, "
         "errors behind short-circuit) are skipped and counted. Commands run in-process; any suspected violation is re-run in "
         "fresh processes before it is reported.",
         "3 (C19)", "E1 bobproc"),
 "C01": ("exploration",
         "Hypothesis (project model, edit history) generation; metamorphic oracle incremental workspace == clean build at another path via content-recorder scripts and an independent tree canonicaliser; event-log oracle for the unchanged re-run",
         "Generated projects and edit histories are built incrementally in one workspace through the real command line (dev and "
         "release mode, with and without -j) and compared, package by package, with a from-scratch build of the final state at "
         "another path; a repeated build must execute nothing. ~1000 histories per quick run.",
         "Trusted: recorder scripts (vlib/scripts.py) make step output a pure function of the declared inputs; vlib/treecanon.py. "
         "Bob runs in the harness process; suspected violations are confirmed with the real bob script in fresh processes. "
         "git/url SCMs are covered by C12, sandboxing by C13.",
         "3 (C01)", "E1 bobproc, E2 projgen, E3 scripts, E4 treecanon"),
 "C02": ("exploration",
         "Hypothesis project + single-edit-neighbour generation; oracle = independent execution descriptor (script text Bob will run, strong environment, tools, argument descriptors) must be in bijection with the Variant-Ids over all steps of project and neighbours",
         "For generated projects, 'twin' recipes with permuted Setup/Script/Finalize placement and 3-10 single-edit neighbours, "
         "every pair of valid steps of equal kind is compared: equal descriptor <=> equal Variant-Id; re-parsing restores ids. "
         "~1600 projects x ~5 neighbours per quick run.",
         "Trusted: Bob's public graph API (getScript/getEnv/getTools/getArguments) as description of what a step runs with - the "
         "digest code itself is not used. The listed known finding (Finalize order) and everything downstream of it is excluded and counted.",
         "3 (C02)", "E2 projgen, E5 pkgdump"),
 "C18": ("exploration",
         "Hypothesis graph + query-grammar generation; reference forward evaluator written from bobpaths(7) (model-based differential), DP validity predicate for reported paths, empty-mode oracle",
         "Generated recipe DAGs with shared and provided nodes and generated path queries (all axes, wildcards, nested predicates, "
         "string functions, three empty-result modes) are evaluated by Bob and by a reference evaluator; result sets must be equal, "
         "reported paths must be real and follow the steps, empty results handled per mode, malformed queries rejected with BobError. "
         "~40000 queries per quick run.",
         "Trusted: the reference evaluator in checks/c18_paths.py and the package graph obtained through getDirectDepSteps/"
         "getIndirectDepSteps. Aliases are not generated yet. One known finding (reported path may bypass steps) is excluded and counted.",
         "3 (C18)", "E5 pkgdump, E8 strlang"),
 "C03": ("exploration",
         "Hypothesis project generation; metamorphic relations on the (Variant-Id, Build-Id) map under id-irrelevant transformations (location, file order, timestamps, hash seed, parse order, extra roots, irrelevant edits, sandbox on/off, weak tool variant) with a sensitivity control; golden comparison for the shipped reference project",
         "For generated projects the id map must be invariant under every transformation the property lists, Build-Ids are computed "
         "with the builder's own digest routine; the shipped stable-variant-ids project must reproduce its five recorded spec files.",
         "Trusted: synthetic source hashes and empty host fingerprints for the Build-Id computation; sandbox (in)sensitivity is "
         "decided from the model (no fingerprinted step in the dependency closure).",
         "3 (C03)", "E2 projgen, E5 pkgdump"),
 "C04": ("exploration",
         "Hypothesis project + edit-history generation; differential oracle warm (all in-memory and on-disk caches) vs cold (PackageMatcher disabled, empty directory) on a full graph dump and path queries; Bob's own pkgck assertion",
         "After every edit of a generated history the package graph computed in the long-lived, cache-warm directory must equal the "
         "graph computed without any cache in a fresh directory (names, structure, scripts, environments, tools, sandbox, ids, paths) "
         "and three path queries must agree; sandbox mode alternates between states.",
         "Trusted: the graph dump through the public API (vlib/pkgdump.py). The cold side disables package re-use by patching "
         "PackageMatcher.matches in the harness process; -c config files and optional includes of default.yaml are not generated.",
         "3 (C04)", "E2 projgen, E5 pkgdump"),
 "C20": ("exploration",
         "Hypothesis project + Jenkins-configuration generation; invariant oracles on the job graph (own DFS, own reachability traversal) and round-trip oracle for the embedded job specification through the real encode/decode chain incl. Build-Ids",
         "For generated projects (multiPackages, several variants per recipe, tool/sandbox providers, names that fold together) and "
         "generated roots/prefix/isolate/sandbox settings the job graph must be acyclic and complete, dependencies must be built "
         "upstream, and the decoded job spec must reproduce ids, scripts, environments, tools, arguments and workspace paths.",
         "No Jenkins server involved (job calculation and spec only). A shared checkout/build step may be executed by several jobs; "
         "the exactly-one-job rule is applied to package steps. One known finding (names folding to one job) is excluded and counted.",
         "3 (C20)", "E2 projgen, E5 pkgdump"),
 "C05": ("fault_enumeration",
         "Hypothesis (project, edits, fault plan) generation; fault injection at instrumented kill points of the aborted invocation (state saves, workspace mutations, audit saves, script entry/exit), script failure and script-kills-Bob switches; oracle = final build equals clean build (recorder scripts + tree canonicaliser)",
         "An invocation of a generated project history is aborted by 1-2 generated faults (failing script, script killing Bob, Bob dying "
         "before/after its k-th kill point counted in a dry run); after removing the stale lock the next build must succeed and every "
         "package result must equal a clean build of the same state.",
         "Bob's own death is emulated in-process (BaseException at the kill point, no later instrumented mutation); kill -9 from a script "
         "uses a real forked child; suspected violations are confirmed with real processes and a real os._exit. k is generated, not "
         "exhaustive, in both tiers: 1-2 faults in sequence plus 0-3 (thorough 2-6) further kill points tried one by one from a snapshot; "
         "half of the plans aim at kill points next to workspace mutations. Two hand-written corpus cases enumerate the kill points "
         "around the pruning of a changed build step and the re-checkout of a changed url SCM.",
         "3 (C05)", "E1 bobproc, E2 projgen, E3 scripts, E4 treecanon"),
 "C09": ("fault_enumeration",
         "operation-trace fault enumeration (kill / I-O error at every file-system operation of the upload, metadata upload and cache-mirror paths, competitor injected before every operation) plus Hypothesis-generated schedules of concurrent uploader/reader/mirror processes under a harness-owned scheduler; oracle = artifact name absent or complete payload, never replaced, inotify cross-check",
         "For generated payloads every file-system operation of LocalArchive uploads is used as kill point, I/O-error point and "
         "competitor-injection point; concurrent uploaders/readers/mirroring downloaders run under generated interleavings. A reader "
         "must see nothing or a complete artifact that never changes; failed uploads leave nothing under the name.",
         "Single-uploader kills are emulated in-process (all later primitives become no-ops), real kills occur in the scheduler layer; "
         "no power-loss model; http/azure back-ends not covered. A temporary file left by a failed (not killed) upload is counted as "
         "information only - the property speaks about the artifact name. 'Complete' means: the whole gzip stream including its "
         "trailer is present and Bob's own downloader extracts the expected payload; half of the undamaged mirror cases get an artifact "
         "size just behind a read boundary of the tar stream reader.",
         "3 (C09)", "own tracer/scheduler (checks/c09_upload.py)"),
 "C16": ("exploration",
         "Hypothesis (project, churn-oriented edit history, clean plan) generation; invariant oracles over directory assignment (one variant per directory, surviving variants keep directories), dry-run vs real clean differential, garbage/used-set oracle from the real query-path output, final contents vs clean build",
         "After every build of a generated history the directory assignment is checked; generated `bob clean` calls (dry-run then real) "
         "must delete exactly the unassigned build/dist workspaces, keep sources without -s, and leave nothing to rebuild; final "
         "contents must equal a clean build.",
         "The set of assigned directories is taken from `bob query-path` of the same state (existing workspaces of the current graph). "
         "Source workspaces with -s may or may not be removed (SCM status decides).",
         "3 (C16)", "E1 bobproc, E2 projgen, E4 treecanon"),
 "C06": ("exploration",
         "Hypothesis-generated task scripts (yield counts = schedule) on the real JobServerSemaphore over a real pipe with token-conservation invariants; Hypothesis (project, job count, step durations, failing step, -k, make job server) generation with an event-log oracle (dependency order, no double execution, job bound, failure confinement), differential vs sequential build, token count at shutdown",
         "L2: 2-7 asyncio tasks acquire/release/yield/await children on JobServerSemaphore (internal and recursive mode); holders and "
         "tokens are checked after every step, every task must finish and all tokens must be back. L1: generated DAG projects are built "
         "with -j 2..8 or below an emulated make job server with generated step durations, failures and -k; the linearised start/end "
         "log must respect dependencies, the job limit and failure confinement; results equal the sequential build; no token is lost.",
         "The L2 schedule space is the set of interleavings reachable through yield counts of a single-threaded event loop (no "
         "cancellation). L1 explores the schedules that generated sleep durations produce - real timing decides, the oracle only uses "
         "event order. With -k only failing build/package steps must leave independent steps completed (a failing checkout ends the "
         "Build-Id calculation of everything above it by design).",
         "3 (C06)", "E1 bobproc, E2 projgen, E3 scripts, E4 treecanon"),
 "C07": ("exploration",
         "Hypothesis (uploader state, edit history, download mode, host fingerprint, relocatability, archive noise) generation; differential oracle downloading build vs purely local build at the same path (recorder scripts + tree canonicaliser), event-log oracle for complete reuse",
         "An uploader builds state S_A at one path into a file archive; a downloader builds S_A + 0-3 edits at a differently long path "
         "with a generated download mode and equal or different emulated host fingerprint. Every package result must equal a purely "
         "local build at the same path; with identical state nothing may be built (yes/forced) resp. only the top-level package (deps).",
         "file:// archive only; the host fingerprint is a whitelisted file read by fingerprintScript and by the build scripts of "
         "fingerprinted recipes; non-relocatable packages record $PWD. Packages consumed through tools record neither (Bob documents "
         "that host dependencies of tools do not propagate) and directories of weak tools are recorded by name only. Live-build-id "
         "prediction is exercised through deterministic checkout scripts and, in a quarter of the cases (git layer), through a git "
         "SCM following a branch/tag/commit in 2-3 workspaces that share an archive and an upstream repository. Only packages that the "
         "downloading invocation visits are judged: dependencies of a downloaded package are neither materialised nor refreshed by Bob.",
         "3 (C07)", "E1 bobproc, E2 projgen, E3 scripts, E4 treecanon"),
 "C12": ("exploration",
         "Hypothesis (source universe, SCM specification, history of recipe edits / upstream events / user actions / Bob commands) generation; marker oracle for user work (every file and commit marker must survive in place or in the attic), convergence oracle untouched workspace == fresh checkout elsewhere (tree canonicaliser)",
         "Local bare git repositories (written without git processes), url files/tarballs and import directories; 2-3 rounds of user "
         "actions (dirty file, untracked file, commits, branches, detached HEAD), recipe SCM edits and upstream events followed by "
         "bob dev / --clean-checkout / clean / clean -s / clean --attic. After every invocation all user markers must exist below "
         "the project; at the end directories the user did not touch must equal a fresh checkout of the final specification.",
         "No network SCMs (file:// and local paths only), no svn/cvs, no rebase: True, no git submodules. Oracle A (convergence) is "
         "evaluated at the end of a case only. Four genuine convergence defects were found: one is repaired, three are listed known "
         "findings that are excluded by structural matchers and counted.",
         "3 (C12)", "E1 bobproc, E4 treecanon, vlib/srcuni.py"),
 "C14": ("exploration",
         "Hypothesis (project, overlay with meta variables / url+git SCMs / audit files, history kind fresh / incremental / downloading / shared) generation; independent audit reader with schema transcribed from the manual, closure check, re-implemented directory hash and artifact-id, ids from a fresh in-process parse, uploader/consumer document comparison",
         "For every step workspace of the current graph after every successful invocation the audit trail is read with an own reader and "
         "checked for structure, transitive closure, variant-id / result-hash / build-id, meta data and -M defines, argument / tool / "
         "sandbox references in order, SCM records (import, url, git), artifact-id as function of the record, and equality with the "
         "document inside uploaded artifacts and in downloaded / shared workspaces.",
         "Trails of steps that an invocation skipped are judged as the trail of the invocation that produced them (package path of an "
         "earlier state accepted); stale meta variables after a metadata-only edit are a listed known finding. No sandbox, svn, "
         "release mode or submodules. Date, uname, os-release and the env dump (beyond exported variables) are never compared.",
         "3 (C14)", "E1 bobproc, E2 projgen, E5 pkgdump"),
 "C15": ("exploration",
         "Hypothesis-generated operation histories of 2-4 projects on one LocalShare executed (a) sequentially, (b) as threads under a harness-owned scheduler that interleaves at flock/rename/open granularity, (c) as real forked processes; reference model of the store (content, users, sizes, quota), invariants after every step",
         "install / use / unuse / gc (all flag combinations, quota none / tight / loose, autoClean) through LocalShare and the builder's "
         "_installSharedPackage/_useSharedPackage code; after every operation: no used package is collected by a non-forced gc, "
         "content is never mixed or truncated, repo.json sizes match, gc removes oldest-first, links point to complete packages.",
         "Interleavings are owned at the granularity of the instrumented primitives (flock, rename, open, json dump); kernel-level races "
         "inside one syscall are out of reach. Crash points are not injected here. Seven genuine defects were found and repaired "
         "(see known_findings.json, fixed records).",
         "3 (C15)", "own scheduler (checks/c15_share.py)"),
 "C13": ("exploration",
         "Hypothesis (project, variable definitions over a hostile alphabet at every definition site with generated quoting style, declared/weak/undeclared per step, host environment with canaries, whitelist options, tools, sandbox mode) generation; oracle = independent model of the documented environment rules compared byte for byte with dumps written by the step scripts; sandbox probes for visibility and writability",
         "Step and fingerprint scripts dump exported variables, positional arguments and argument ids with bash builtins; observed names "
         "must equal declared-and-set + whitelisted host variables + documented Bob variables, values byte-exact, arguments in declared "
         "order, tools first on PATH and libs on LD_LIBRARY_PATH, canaries never leak without -E; inside the real namespace sandbox only "
         "declared dependencies are visible (read-only) and only the own workspace and a fresh /tmp are writable.",
         "Trusted: the environment model in checks/c13_env.py (written from the manual) and vlib/strlang.py for rendering values in the "
         "substitution language. NUL cannot occur in a process environment; names are limited to [A-Za-z_][A-Za-z0-9_]*; multiPackage, "
         "aliases and weak tools are not generated here; image-sandbox cases run no fingerprint script. The sandbox part needs "
         "unprivileged user namespaces (available in this sandbox; otherwise labelled skipped_no_userns, never a violation).",
         "3 (C13)", "E1 bobproc, E8 strlang"),
}

NOT_YET = {}

def main():
    props = [json.loads(l) for l in open(os.path.join(HERE, "properties.jsonl"))]
    checks = []
    na = []
    for p in props:
        pid = p["id"]
        if pid in CHECKS and glob.glob(os.path.join(HERE, "checks", pid.lower() + "_*.py")):
            lvl, tech, text, note, ref, engine = CHECKS[pid]
            checks.append({
                "property_id": pid,
                "quick_cmd": "/venv/bin/python run.py %s --tier quick" % pid,
                "thorough_cmd": "/venv/bin/python run.py %s --tier thorough" % pid,
                "evidence_file": "/verif/evidence/%s.json" % pid,
                "replay_cmd_template": "/venv/bin/python run.py %s --replay {path}" % pid,
                "engine": engine,
                "level_claimed": {"category": lvl, "text": text, "design_ref": "DESIGN.md section " + ref},
                "level_note": note,
                "technique": tech,
            })
        else:
            na.append({"property_id": pid,
                       "reason": NOT_YET.get(pid, "check not built yet in this session (planned in DESIGN.md section 3); "
                                                  "not claimed until the check exists and is quiet on the unchanged tree")})
    man = {
        "version": 1,
        "setup_cmd": "/venv/bin/python tools/setup.py",
        "hooks": {
            "guard": "none (no source hooks: all instrumentation is monkey-patched from /verif inside the harness processes)",
            "enable": "nothing to enable; checks import /repo/pym from the current working tree",
            "baseline_off_cmd": "cd /repo && /venv/bin/python -m pytest -ra -q -p no:cacheprovider --timeout=900 --continue-on-collection-errors",
            "source_commits": [],
            "add_only": True,
        },
        "engines": [
            {"name": "runner", "path": "vlib/runner.py", "serves_properties": sorted(CHECKS),
             "kind_free_text": "16-shard Hypothesis driver, evidence merge, known-finding exclusion, replay"},
            {"name": "E4 treecanon", "path": "vlib/treecanon.py", "serves_properties": ["C01", "C05", "C06", "C07", "C08", "C11", "C12", "C15", "C16"],
             "kind_free_text": "independent canonical form of a directory tree (comparison oracle)"},
            {"name": "E1 bobproc", "path": "vlib/bobproc.py", "serves_properties": ["C01", "C05", "C06", "C07", "C08", "C13", "C14", "C15", "C16", "C19"],
             "kind_free_text": "runs Bob commands: in the harness process (direct), in a forked child, or as the real script"},
            {"name": "E2 projgen", "path": "vlib/projgen.py", "serves_properties": ["C01", "C02", "C03", "C04", "C05", "C06", "C07", "C16", "C18", "C20"],
             "kind_free_text": "project model, Hypothesis strategies, YAML renderer with logical clock, edit operations"},
            {"name": "E3 scripts", "path": "vlib/scripts.py", "serves_properties": ["C01", "C05", "C06", "C07", "C16"],
             "kind_free_text": "content-recorder step scripts, event log, fail/kill switches"},
            {"name": "E5 pkgdump", "path": "vlib/pkgdump.py", "serves_properties": ["C02", "C03", "C04", "C18", "C20"],
             "kind_free_text": "in-process parse of a rendered project and dump of the package graph through the public API"},
            {"name": "E8 strlang", "path": "vlib/strlang.py", "serves_properties": ["C17"],
             "kind_free_text": "reference evaluator + renderer + strategies for the string/condition language"},
        ],
        "checks": checks,
        "notes": "All checks: /venv/bin/python run.py <id> --tier quick|thorough; VERIF_SEED selects the Hypothesis seeds; "
                 "known findings and fix records are in known_findings.json; corpus/<id>/ holds regression inputs replayed first.",
        "not_applicable": na,
    }
    out = os.path.join(HERE, "MANIFEST.json")
    with open(out, "w") as f:
        json.dump(man, f, indent=1)
    try:
        import jsonschema
        jsonschema.validate(man, json.load(open("/root/.vp/MANIFEST.schema.json")))
        print("MANIFEST.json valid: %d checks, %d not_applicable" % (len(checks), len(na)))
    except ImportError:
        print("written (jsonschema not available for validation)")

if __name__ == "__main__":
    main()
