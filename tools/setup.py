#!/venv/bin/python
"""MANIFEST.setup_cmd: offline, idempotent.  Makes sure hypothesis is importable in /venv,
builds the arena helper (vlib/arena.c) and, if possible, installs atheris into /verif/.deps."""
import os, subprocess, sys

HERE = os.path.dirname(os.path.dirname(os.path.abspath(__file__)))
WHEELS = "/opt/veriftools/wheels"

def pip(*args):
    return subprocess.run([sys.executable, "-m", "pip", "install", "--no-index", "--find-links", WHEELS,
                           "--quiet", *args]).returncode

def main():
    try:
        import hypothesis  # noqa
    except ImportError:
        if pip("hypothesis") != 0:
            print("setup: cannot install hypothesis", file=sys.stderr)
            return 1
    deps = os.path.join(HERE, ".deps")
    os.makedirs(deps, exist_ok=True)
    so = os.path.join(deps, "verif_arena.so")
    r = subprocess.run(["cc", "-O2", "-shared", "-fPIC", "-o", so, os.path.join(HERE, "vlib", "arena.c")])
    if r.returncode != 0:
        print("setup: arena helper not built (checks run without it, slower)", file=sys.stderr)
    if not os.path.isdir(os.path.join(deps, "atheris")):
        if pip("--target", deps, "atheris") != 0:
            print("setup: atheris not installed (fuzz layers fall back to Hypothesis only)", file=sys.stderr)
    print("setup ok")
    return 0

if __name__ == "__main__":
    sys.exit(main())
