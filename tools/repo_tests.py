#!/venv/bin/python
"""Run the pinned unit tests of the tree under test and compare with the baseline (BASELINE.json stable_pass).
usage: tools/repo_tests.py [repo dir]   -> exit 0 iff every baseline test passes"""
import sys, os, json, subprocess, xml.etree.ElementTree as ET
repo = sys.argv[1] if len(sys.argv) > 1 else "/repo"
junit = "/var/tmp/repo-tests-%d.xml" % os.getpid()
subprocess.run("cd %s && PYTHONPATH=%s/pym /venv/bin/python -m pytest -q -p no:cacheprovider --timeout=900 "
               "--continue-on-collection-errors -n 6 --junitxml=%s test/unit > /dev/null 2>&1" % (repo, repo, junit), shell=True)
passed = set()
for tc in ET.parse(junit).getroot().iter("testcase"):
    if not any(c.tag in ("failure", "error", "skipped") for c in tc):
        passed.add("%s::%s" % (tc.get("classname"), tc.get("name")))
os.unlink(junit)
base = json.load(open("/root/.vp/BASELINE.json"))["stable_pass"]
missing = [t for t in base if t not in passed]
print("baseline tests: %d, passing now: %d, missing: %r" % (len(base), len(base) - len(missing), missing[:20]))
sys.exit(1 if missing else 0)
