#!/bin/bash
# run every registered quick check on the unchanged tree (rewrites evidence/), report exit codes
cd /verif
for id in $(/venv/bin/python -c "import json; print(' '.join(c['property_id'] for c in json.load(open('MANIFEST.json'))['checks']))"); do
  if [ -n "$1" ] && [[ ! " $* " =~ " $id " ]]; then continue; fi
  /venv/bin/python run.py $id --tier quick > /var/tmp/refresh-$id.log 2>&1; rc=$?
  echo "$id rc=$rc $(tail -1 /var/tmp/refresh-$id.log | cut -c1-150)"
done
python3-vt - <<'PY'
import json, jsonschema, glob
m=json.load(open('/verif/MANIFEST.json')); jsonschema.validate(m, json.load(open('/root/.vp/MANIFEST.schema.json')))
s=json.load(open('/root/.vp/EVIDENCE.schema.json'))
for c in m['checks']:
    jsonschema.validate(json.load(open(c['evidence_file'])), s)
print("manifest + %d evidence files valid" % len(m['checks']))
PY
