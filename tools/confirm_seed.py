#!/venv/bin/python
"""Confirm a seeded change delivered by a sub-agent and file it under /verif/seeded/<id>/.

usage: confirm_seed.py <agent OUT/k dir> <id>   e.g. confirm_seed.py /tmp/seed/C08/OUT/1 C08-1

In a scratch worktree of /repo HEAD (removed afterwards):
  1. the demo passes on the unchanged tree, 2. the patch applies, 3. the demo fails with it,
  4. every test of the pinned baseline (BASELINE.json stable_pass) still passes.
"""
import json, os, subprocess, sys, shutil, glob, xml.etree.ElementTree as ET

def sh(cmd, **kw):
    return subprocess.run(cmd, shell=True, stdout=subprocess.PIPE, stderr=subprocess.STDOUT, text=True, **kw)

def main():
    src, sid = sys.argv[1], sys.argv[2]
    wt = "/var/tmp/confirm-%s" % sid
    sh("git -C /repo worktree remove --force %s" % wt)
    r = sh("git -C /repo worktree add -q --detach %s HEAD" % wt)
    assert r.returncode == 0, r.stdout
    out = {"id": sid, "head": sh("git -C /repo rev-parse --short HEAD").stdout.strip()}
    try:
        demo = [f for f in ("demo.py", "demo.sh") if os.path.exists(os.path.join(src, f))][0]
        runner = "/venv/bin/python" if demo.endswith(".py") else "bash"
        env = dict(os.environ, PYTHONPATH=wt + "/pym")
        def run_demo():
            return subprocess.run([runner, os.path.join(src, demo)], cwd="/var/tmp", env=env, stdout=subprocess.PIPE,
                                  stderr=subprocess.STDOUT, text=True, timeout=900)
        r = run_demo()
        out["demo_on_clean_rc"] = r.returncode
        r = sh("git -C %s apply --3way %s" % (wt, os.path.join(src, "patch.diff")))
        out["patch_applies"] = r.returncode == 0
        if r.returncode != 0:
            out["apply_error"] = r.stdout[-500:]
        else:
            r = run_demo()
            out["demo_with_patch_rc"] = r.returncode
            out["demo_with_patch_tail"] = r.stdout[-600:]
            junit = "/var/tmp/confirm-%s.xml" % sid
            r = sh("cd %s && PYTHONPATH=%s/pym /venv/bin/python -m pytest -q -p no:cacheprovider --timeout=900 "
                   "--continue-on-collection-errors -n 6 --junitxml=%s test/unit" % (wt, wt, junit))
            passed = set()
            for tc in ET.parse(junit).getroot().iter("testcase"):
                if not any(c.tag in ("failure", "error", "skipped") for c in tc):
                    passed.add("%s::%s" % (tc.get("classname"), tc.get("name")))
            base = json.load(open("/root/.vp/BASELINE.json"))["stable_pass"]
            missing = [t for t in base if t not in passed]
            out["baseline_tests"] = len(base)
            out["baseline_tests_not_passing"] = missing[:20]
            os.unlink(junit)
        ok = (out.get("demo_on_clean_rc") == 0 and out.get("patch_applies") and
              out.get("demo_with_patch_rc", 0) != 0 and not out.get("baseline_tests_not_passing", ["x"]))
        out["confirmed"] = bool(ok)
        dst = os.path.join("/verif/seeded", sid)
        os.makedirs(dst, exist_ok=True)
        # patch relative to current HEAD
        d = sh("git -C %s diff HEAD" % wt).stdout
        with open(os.path.join(dst, "patch.diff"), "w") as f:
            f.write(d if out.get("patch_applies") else open(os.path.join(src, "patch.diff")).read())
        shutil.copy(os.path.join(src, demo), os.path.join(dst, demo))
        meta = {}
        try:
            meta = json.load(open(os.path.join(src, "meta.json")))
        except Exception:
            pass
        meta["confirmation"] = out
        meta["what_i_ran"] = ["demo on unchanged worktree (must exit 0)", "git apply --3way patch.diff", "demo with patch (must exit non-zero)",
                              "pytest -n 6 test/unit: all %d pinned baseline tests must pass" % out.get("baseline_tests", 0)]
        with open(os.path.join(dst, "meta.json"), "w") as f:
            json.dump(meta, f, indent=1)
        print(json.dumps(out, indent=1))
    finally:
        sh("git -C /repo worktree remove --force %s" % wt)

if __name__ == "__main__":
    main()
