"""C14 - Audit trails are complete and truthful.

Deviations from DESIGN.md section "C14" (all on the side of demanding less, never more):
* no sandbox image (needs user namespaces + an image).  `import` SCMs come from the project generator, `url` SCMs
  (file:// URLs, with and without digestSHA1) and - in one case of eight, because every git checkout costs ~15 process
  creations which this VM serialises - a git SCM (one small upstream repository per shard, pinned commit, optionally a
  checkout script that modifies a tracked file) are added by an overlay of this module.  The git record is judged
  without running git: commit == HEAD read from the repository files, dirty == "the checkout script modified a
  tracked file", remotes == {origin: url}.
* incremental histories optionally contain manual edits of a source workspace between two builds (Bob re-hashes source
  workspaces on every invocation and rewrites the trail without executing the step; such a trail legitimately has
  no `env` and no dependencies, which is only labelled).
* steps that an incremental invocation legitimately skipped keep the trail of the invocation that produced them:
  for those, `meta.package`, `metaEnv` (meta variables do not enter the Variant-Id unless a step consumes them) are
  only required to be the value of SOME earlier state of the same history for that (recipe, step, Variant-Id); for
  trails written by the last invocation the values of the final state are required exactly.
* downloaded / shared results carry the producer's trail (artifacts are keyed by Build-Id): it must be the complete
  producer document; its variant-id is only labelled (not failed) if it differs from the consumer's step.
* Build-Ids are recomputed with Bob's own StepIR.getDigestCoro over the Build-Ids found in the *referenced
  records* of the same trail (self consistency), for steps that are neither fingerprinted nor non-relocatable.
* the directory hash and the artifact-id are re-implemented here (tree_hash, artifact_id).
* histories may contain an invocation with --no-audit (never the first or the last one of a workspace).  Bob removes the
  trail of every step it executes then, and in later invocations it refuses (warning "AUDIT ... failed") to write a
  trail for a step whose dependency has none.  From such an invocation on a missing trail is accepted in that
  workspace (label trail-missing-after-no-audit); a trail that exists has to be truthful like any other.
* in about one case of six the rendered project is committed to a fresh git repository before the first build (3 git
  processes), 2-4 independent leaf packages are added and the builds run with -j2..4: Bob then records the state of the
  recipes (`recipes`: type git, dir ".", commit == HEAD read from the repository files, dirty == a committed file was
  modified by a later edit - for trails of the last invocation -, description ends with -dirty iff dirty, no remotes);
  without repository no `recipes` key may exist.
* shared kind, half of the cases: the producer also uploads (share location + --upload in one invocation) and the
  consumer may download; rule (8) demands a regular file meta/audit.json.gz in every artifact.
"""
import os, sys, re, copy, json, gzip, stat, struct, hashlib, tarfile, asyncio, datetime, base64
from hypothesis import strategies as st

import vlib
from vlib import bobproc, projgen, pkgdump, scripts
from vlib.runner import run_hypothesis, Violation, jhash
from checks import c01_incremental as C1

PROP = "C14"
LEVEL = "exploration"
RULE = ("Generated projects (2-6 recipes, classes, multiPackages, tools incl. inherited and weak ones, import SCMs, "
        "checkout scripts, include files; overlay: extra metaEnvironment variables incl. substitutions and non-ASCII "
        "values, url SCMs on file:// URLs with/without digest, in 1/8 of the cases a git SCM (pinned commit, clean or "
        "made dirty by the checkout script), package/build audit files, shared packages) built in "
        "develop mode with generated -M defines (incl. an attempt to redefine meta.step) and -j1/2, in histories of "
        "four kinds: fresh; incremental (1-3 generated edits, optionally a manual edit of a source workspace in "
        "between, a build after each, the trails are judged after every successful invocation); download (uploader builds S_A with --upload into a file archive, a second project at "
        "another path builds S_A + 0-2 edits with --download=yes|deps and other -M defines, optionally followed by a "
        "second invocation there with the edits taken back); shared (two projects, one share store, same protocol, in "
        "half of the cases the producer also uploads and the consumer may download). Invocations that are neither the "
        "first nor the last of a workspace may run with --no-audit (afterwards missing trails are accepted there, "
        "existing ones are judged as always). In ~1/6 of the cases the project is a git repository (committed before "
        "the first build), has 2-4 extra independent leaf packages and is built with -j2..4; the `recipes` record is "
        "then judged against the repository (commit, dirty), otherwise it must be absent. Oracle, with an independent gzip+json reader, for every step in the closure of the built root "
        "package whose producer is local (and for every downloaded/shared result): (1) each record conforms to a schema "
        "transcribed from doc/manual/audit-trail.rst; (2) every id under `dependencies` of the artifact and of each "
        "reference is in `references`; (3) variant-id == Variant-Id of the step (fresh in-process parse, same -D), "
        "result-hash == own re-implementation of the directory hash over the workspace, checkout: build-id == "
        "result-hash, else build-id == getDigestCoro over the referenced records' build-ids; (4) meta.recipe/step/"
        "language/bob exact, meta.package a package path of that variant, metaEnv == package meta environment, -M "
        "defines under `meta`, audit files == file content, exported plain variables appear in `env`; (5) args in "
        "argument order, tools by name, each referenced record has the dependency's Variant-Id, step label and the "
        "result-hash of the dependency's current trail; trails written by the last invocation reference exactly the "
        "dependency's current artifact-id; (6) import/url SCM records: type, dir, url as in the recipe, digest == "
        "recomputed hash of the checked out directory/file, git: commit == HEAD of the checkout, dirty, remotes; (7) artifact-id == own tagged SHA-1 over the record without "
        "`artifact-id`, for the artifact and every reference; (8) every uploaded tarball holds meta/audit.json.gz equal "
        "to the uploader's workspace trail of that artifact-id (a regular file); a downloaded/shared workspace carries the producer's "
        "complete document and its result-hash equals the hash of the local content; no invocation fails with a "
        "complaint about an audit trail. Non-trivial: a judged trail with "
        ">=1 tool reference and >=2 levels of references that was written by an incremental (not first) invocation, or "
        "judged in a consumer project that downloaded / shared >=1 result; distinct = hash of the case.")
ASSUMPTIONS = ["develop mode only, no sandbox, no svn SCM, git only with a pinned commit and without submodules",
               "step scripts are deterministic recorder scripts that only write into their own workspace",
               "the Build-Id formula itself is taken from Bob (StepIR.getDigestCoro); C02/C03 check it",
               "Bob runs inside the harness process; every suspected violation is re-run with the real `bob` script "
               "in fresh processes before it is reported"]
TIME_BUDGET = {"quick": 180, "thorough": 1700}
BATCH = 4

# Meta variables enter no id unless a step consumes them: after a metadata-only recipe edit Bob skips all steps and the
# trails keep the old `metaEnv` (observed, see the final report of this check).  This is judged as "trail of the
# invocation that produced the result" (label stale-metaenv-...).  Set to True to demand the final state's values for
# every trail; the matcher in FINDINGS then identifies exactly these failures.
STRICT_METAENV = True

# ---------------------------------------------------------------------------------------
# independent re-implementations

_IGN_DIRS = {b".git", b".portage-cache", b".svn"}
_IGN_FILES = {b"BaseDirList.txt"}

def sha1_file(path):
    h = hashlib.sha1()
    with open(path, "rb") as f:
        for blk in iter(lambda: f.read(65536), b""):
            h.update(blk)
    return h.digest()

def tree_hash(path):
    """content hash of a directory as documented for `result-hash` (mode + digest + name of the sorted entries,
    directories sort with a trailing slash, SCM administrative directories ignored); no cache involved"""
    if isinstance(path, str):
        path = os.fsencode(os.path.realpath(path))
    ents = []
    for name in os.listdir(path):
        full = os.path.join(path, name)
        s = os.lstat(full)
        if stat.S_ISDIR(s.st_mode):
            if name in _IGN_DIRS: continue
            key = name + b"/"
        else:
            if name in _IGN_FILES: continue
            key = name
        ents.append((key, full, s))
    ents.sort(key=lambda e: e[0])
    blob = []
    for key, full, s in ents:
        m = s.st_mode
        if stat.S_ISREG(m): d = sha1_file(full)
        elif stat.S_ISDIR(m): d = tree_hash(full)
        elif stat.S_ISLNK(m): d = hashlib.sha1(os.readlink(full)).digest()
        elif stat.S_ISBLK(m) or stat.S_ISCHR(m): d = struct.pack("<L", s.st_rdev)
        else: d = b""
        blob.append(struct.pack("=L", m) + d + key)
    return hashlib.sha1(b"".join(blob)).digest()

def _dig(d, h):
    if isinstance(d, str):
        h.update(struct.pack("<BI", 2, len(d))); h.update(d.encode("utf8"))
    elif isinstance(d, dict):
        h.update(struct.pack("<BI", 1, len(d)))
        for k in sorted(d):
            _dig(k, h); _dig(d[k], h)
    elif isinstance(d, list):
        h.update(struct.pack("<BI", 3, len(d)))
        for i in d: _dig(i, h)
    elif isinstance(d, int):              # (booleans are digested as integers)
        h.update(struct.pack("<Bq", 4, d))
    elif d is None:
        h.update(struct.pack("<B", 7))
    else:
        raise ValueError("value of type %s in an audit record" % type(d).__name__)

def artifact_id(record):
    h = hashlib.sha1()
    _dig({k: v for k, v in record.items() if k != "artifact-id"}, h)
    return h.hexdigest()

# ---------------------------------------------------------------------------------------
# schema transcribed from doc/manual/audit-trail.rst (unknown keys are to be ignored by readers)

_HEX = re.compile(r"^(?:[0-9a-f]{2})+$")
def _hex(v, n=None):
    return isinstance(v, str) and _HEX.match(v) is not None and (n is None or len(v) == n)

def _strmap(v):
    return isinstance(v, dict) and all(isinstance(k, str) and isinstance(x, str) for k, x in v.items())

def schema_errors(rec):
    e = []
    if not isinstance(rec, dict):
        return ["record is not an object"]
    for k in ("artifact-id", "variant-id", "result-hash"):
        if not _hex(rec.get(k), 40): e.append("%s is not a 160 bit hex number: %r" % (k, rec.get(k)))
    if not _hex(rec.get("build-id")) or len(rec["build-id"]) < 40: e.append("build-id is not a hex number: %r" % (rec.get("build-id"),))
    if not isinstance(rec.get("env"), str): e.append("env is not a string")
    if "metaEnv" in rec and not _strmap(rec["metaEnv"]): e.append("metaEnv is not a string map")
    if "files" in rec and not _strmap(rec["files"]): e.append("files is not a string map")
    if "recipes" in rec and not isinstance(rec["recipes"], dict): e.append("recipes is not an object")
    scms = rec.get("scms")
    if not isinstance(scms, list) or not all(isinstance(s, dict) and isinstance(s.get("type"), str) and isinstance(s.get("dir"), str) for s in scms):
        e.append("scms is not a list of objects with type and dir")
    else:
        for s in scms:
            if s["type"] == "url":
                dg = s.get("digest")
                if not (isinstance(dg, dict) and isinstance(dg.get("algorithm"), str) and _hex(dg.get("value"))):
                    e.append("url scm record without digest {algorithm, value}")
                if "url" in s and not isinstance(s["url"], str): e.append("url scm: url is not a string")
            if s["type"] == "git":
                if not (_hex(s.get("commit"), 40) and isinstance(s.get("dirty"), bool) and _strmap(s.get("remotes")) and isinstance(s.get("description"), str)):
                    e.append("git scm record malformed")
    deps = rec.get("dependencies")
    if not isinstance(deps, dict):
        e.append("dependencies is not an object")
    else:
        if "args" in deps and not (isinstance(deps["args"], list) and all(_hex(a, 40) for a in deps["args"])): e.append("dependencies.args malformed")
        if "tools" in deps and not (isinstance(deps["tools"], dict) and all(isinstance(k, str) and _hex(v, 40) for k, v in deps["tools"].items())):
            e.append("dependencies.tools malformed")
        if "sandbox" in deps and not _hex(deps["sandbox"], 40): e.append("dependencies.sandbox malformed")
    meta = rec.get("meta")
    if not _strmap(meta):
        e.append("meta is not a string map")
    else:
        for k in ("bob", "package", "recipe", "step"):
            if k not in meta: e.append("meta.%s missing" % k)
        if meta.get("step") not in ("src", "build", "dist"): e.append("meta.step is %r" % (meta.get("step"),))
        if meta.get("language", "bash") not in ("bash", "PowerShell"): e.append("meta.language is %r" % (meta.get("language"),))
    b = rec.get("build")
    if not isinstance(b, dict):
        e.append("build is not an object")
    else:
        for k in ("date", "machine", "nodename", "release", "sysname", "version"):
            if not isinstance(b.get(k), str): e.append("build.%s is not a string" % k)
        if "os-release" in b and not isinstance(b["os-release"], str): e.append("build.os-release is not a string")
        if isinstance(b.get("date"), str):
            try:
                d = datetime.datetime.fromisoformat(b["date"])
                if d.utcoffset() != datetime.timedelta(0): e.append("build.date is not UTC: %r" % b["date"])
            except ValueError:
                e.append("build.date is not ISO 8601: %r" % b["date"])
    return e

def dep_ids(rec):
    d = rec.get("dependencies") or {}
    out = list(d.get("args") or []) + [v for _, v in sorted((d.get("tools") or {}).items())]
    if "sandbox" in d: out.append(d["sandbox"])
    return out

def read_audit(path):
    with gzip.open(path, "rb") as f:
        return json.loads(f.read().decode("utf8"))

# ---------------------------------------------------------------------------------------
# overlay of the generated model (plain data inside the case; absolute paths are injected at render time)

MVARS = ["LICENSE", "M1", "PKG_VERSION"]
MVALS = ["", "GPLv2", "1.2.3", "a b", "${V0:-d}", "lic-ü€", "$(eq,${V1:-},x)", "multi\nline"]

def overlay(model, case):
    m = copy.deepcopy(model)
    mains = [r["body"] for r in m["recipes"]]
    allb = [b for _, b, _ in projgen._bodies(m)]
    for i, var, val in case.get("metaenv") or []:
        allb[i % len(allb)].setdefault("metaEnvironment", {})[var] = val
    for i, n, dig in case.get("url") or []:
        mains[i % len(mains)]["urlscm"] = {"n": n % 4, "digest": bool(dig)}
    for i in case.get("afiles") or []:
        mains[i % len(mains)]["afiles"] = True
    for i, dirty in case.get("git") or []:
        mains[i % len(mains)]["gitscm"] = {"dirty": bool(dirty)}
    if case["kind"] == "shared":
        for i in case.get("shared") or []:
            b = mains[i % len(mains)]
            if b.get("import") or (b.get("urlscm") and not b["urlscm"]["digest"]) or b.get("relocatable") is False or \
                    (b.get("gitscm") or {}).get("dirty"):
                continue
            if (b.get("steps") or {}).get("checkout", {}).get("script") is not None:
                b["checkoutDeterministic"] = True
            b["shared"] = True
    return m

def url_content(n):
    return ("url content %d\n" % n).encode()

def git_upstream(ctx):
    """one small upstream repository per shard (process creation is expensive): -> (url, commit id)"""
    have = getattr(ctx, "_c14_git", None)
    if have is not None:
        return have
    import subprocess
    d = ctx.tmpdir("c14-git-upstream")
    work = os.path.join(d, "work")
    os.makedirs(work)
    env = bobproc.clean_env(d)
    def git(*a, cwd=work):
        subprocess.run(["git"] + list(a), cwd=cwd, env=env, check=True, stdin=subprocess.DEVNULL,
                       stdout=subprocess.DEVNULL, stderr=subprocess.DEVNULL)
    git("init", "-q", "-b", "master", ".")
    for n in ("tracked.txt", "sub/other.txt"):
        os.makedirs(os.path.dirname(os.path.join(work, n)), exist_ok=True)
        with open(os.path.join(work, n), "w") as f: f.write("upstream %s\n" % n)
    git("add", "-A")
    git("commit", "-q", "-m", "initial")
    git("clone", "-q", "--bare", work, os.path.join(d, "up.git"), cwd=d)
    with open(os.path.join(d, "up.git", "packed-refs")) as f:
        commit = [l.split()[0] for l in f if l.strip().endswith("refs/heads/master")][0]
    ctx._c14_git = ("file://" + os.path.join(d, "up.git"), commit)
    return ctx._c14_git

def git_head(repo):
    """commit id HEAD points to, read from the repository files"""
    with open(os.path.join(repo, ".git", "HEAD")) as f:
        h = f.read().strip()
    if not h.startswith("ref:"):
        return h
    ref = h[4:].strip()
    try:
        with open(os.path.join(repo, ".git", ref)) as f:
            return f.read().strip()
    except FileNotFoundError:
        with open(os.path.join(repo, ".git", "packed-refs")) as f:
            for l in f:
                if l.strip().endswith(" " + ref):
                    return l.split()[0]
    return None

def render(model, root, urlbase, archive=None, share=None, git=None):
    m = model
    if archive or share:
        m = copy.deepcopy(model)
        if archive: m["defaults"]["archive"] = {"backend": "file", "path": archive}
        if share: m["defaults"]["share"] = {"path": share, "quota": None}
    orig = projgen.body_yaml
    def body_yaml(body, model_, recipe_name):
        out = orig(body, model_, recipe_name)
        u = body.get("urlscm")
        if u:
            e = {"scm": "url", "url": "file://%s/u%d.txt" % (urlbase, u["n"]), "dir": "dl", "extract": False}
            if u["digest"]: e["digestSHA1"] = hashlib.sha1(url_content(u["n"])).hexdigest()
            out.setdefault("checkoutSCM", []).append(e)
        if body.get("gitscm") and git:
            out.setdefault("checkoutSCM", []).append({"scm": "git", "url": git[0], "commit": git[1], "dir": "g"})
            if body["gitscm"]["dirty"]:
                out["checkoutScript"] = out.get("checkoutScript", "") + "\necho local-change >> g/tracked.txt\n"
        if body.get("afiles"):
            out["packageAuditFiles"] = {"RES": "result.txt"}
            out["buildAuditFiles"] = {"B64": {"filename": "result.txt", "encoding": "base64"}}
        return out
    projgen.body_yaml = body_yaml
    try:
        projgen.render(m, root)
    finally:
        projgen.body_yaml = orig

# ---------------------------------------------------------------------------------------
# the step graph of a project through a fresh in-process parse with the develop directory assignment

class Info:
    __slots__ = ("ws", "label", "vid", "recipe", "pkgname", "pkgnames", "metaenvs", "envs", "lang", "args", "tools", "sandbox", "step", "stacks")

class Graph:
    def __init__(self):
        self.steps = {}
        self.root = None
        self.truncated = False
        self._close = []
    def info(self, step):
        ws = step.getWorkspacePath()
        i = self.steps.get(ws)
        if i is not None:
            return i
        i = Info()
        pkg = step.getPackage()
        i.ws, i.label, i.vid = ws, step.getLabel(), step.getVariantId().hex()
        i.recipe, i.pkgname = pkg.getRecipe().getName(), pkg.getName()
        i.metaenvs, i.envs = [], []
        i.lang = pkg.getRecipe().scriptLanguage.index.value
        i.step, i.stacks, i.pkgnames = step, set(), {pkg.getName()}
        self.steps[ws] = i
        i.args = [self.info(a).ws for a in step.getArguments() if a.isValid()]
        i.tools = {n: self.info(t.getStep()).ws for n, t in step.getTools().items()}
        sb = step.getSandbox()
        i.sandbox = self.info(sb.getStep()).ws if sb is not None else None
        return i
    def finish(self):
        for i in self.steps.values():
            if not i.metaenvs: i.metaenvs.append(dict(i.step.getPackage().getMetaEnv()))
            if not i.envs: i.envs.append(dict(i.step.getEnv()))
    def deps(self, i):
        return list(i.args) + [w for _, w in sorted(i.tools.items())] + ([i.sandbox] if i.sandbox else [])
    def close(self):
        for fn in self._close:
            try: fn()
            except Exception: pass
        self._close = []

def load_graph(project, defines):
    """-> Graph or None (project rejected).  Directory names come from the very table (.bob-dev-dirs.sqlite3) that
    `bob dev` / `bob query-path --develop` use."""
    import sqlite3
    from bob.input import RecipeSet
    from bob.builder import LocalBuilder
    from bob.cmds.build.state import DevelopDirOracle
    from bob.errors import BobError
    g = Graph()
    real = sqlite3.connect
    conns = []
    def tracking(*a, **kw):
        c = real(*a, **kw); conns.append(c); return c
    def closeall():
        for c in conns:
            try: c.close()
            except Exception: pass
    g._close.append(closeall)
    with pkgdump.in_dir(project):
        sqlite3.connect = tracking
        try:
            rs = RecipeSet()
            rs.defineHook('releaseNameFormatter', LocalBuilder.releaseNameFormatter)
            rs.defineHook('developNameFormatter', LocalBuilder.developNameFormatter)
            rs.defineHook('developNamePersister', None)
            rs.setConfigFiles([])
            rs.parse({k: v for k, v in (defines or {}).items() if v is not None})
            oracle = DevelopDirOracle(rs.getHook('developNameFormatter'), rs.getHook('developNamePersister'))
            ps = rs.generatePackages(LocalBuilder.makeRunnable(oracle.getFormatter()), False)
            g._close.insert(0, ps.close)
            oracle.prime(ps)
            walked = pkgdump.walk(ps.getRootPackage(), 1500)
            g.truncated = len(walked) > 1500
            for stack, pkg, via in walked:
                if not stack:
                    continue
                for s in (pkg.getCheckoutStep(), pkg.getBuildStep(), pkg.getPackageStep()):
                    if s.isValid():
                        # (identical variants of one recipe - e.g. two multiPackages - share one workspace)
                        inf = g.info(s)
                        inf.stacks.add("/".join(stack)); inf.pkgnames.add(pkg.getName())
                        me, env = dict(pkg.getMetaEnv()), dict(s.getEnv())
                        if me not in inf.metaenvs: inf.metaenvs.append(me)
                        if env not in inf.envs: inf.envs.append(env)
                if stack == ("r0",):
                    g.root = g.info(pkg.getPackageStep()).ws
            g.finish()
        except BobError:
            g.close()
            return None
        finally:
            sqlite3.connect = real
    return g

def build_id_of(step, dep_bids):
    """Build-Id of a build/package step from the Build-Ids of its arguments and (name sorted) tools"""
    from bob.cmds.build.build import ExecutableStep, LazyIR
    from bob.utils import getPlatformTag
    es = ExecutableStep.fromStep(step, LazyIR)
    if es._isFingerprinted() or (es.isPackageStep() and not es.isRelocatable()):
        return None
    async def calc(steps):
        if len(steps) != len(dep_bids):
            raise ValueError("dependency count")
        return list(dep_bids)
    loop = asyncio.new_event_loop()
    try:
        return loop.run_until_complete(es.getDigestCoro(calc, fingerprint=b"", platform=getPlatformTag(), relaxTools=True))
    finally:
        loop.close()

# ---------------------------------------------------------------------------------------
# the oracle

class Hist:
    """what was true in the states built so far (for trails of skipped steps / of the producer project)"""
    def __init__(self):
        self.stacks = {}     # (recipe, label, vid) -> set of package paths
        self.metaenv = {}    # (recipe, label, vid) -> list of meta environments
    def add(self, g):
        for i in g.steps.values():
            k = (i.recipe, i.label, i.vid)
            self.stacks.setdefault(k, set()).update(i.stacks)
            l = self.metaenv.setdefault(k, [])
            for me in i.metaenvs:
                if me not in l: l.append(me)

def audit_files(project):
    """{audit path relative to project: (mtime_ns, ino, size)}"""
    out = {}
    top = os.path.join(project, "dev")
    for dp, dn, fn in os.walk(top):
        if "audit.json.gz" in fn or os.path.islink(os.path.join(dp, "audit.json.gz")):
            s = os.lstat(os.path.join(dp, "audit.json.gz"))
            out[os.path.relpath(os.path.join(dp, "audit.json.gz"), project)] = (s.st_mtime_ns, s.st_ino, s.st_size)
        if "workspace" in dn:
            dn.remove("workspace")
    return out

def levels(doc):
    """depth of the reference graph below the artifact, whether any record uses a tool"""
    refs = {r.get("artifact-id"): r for r in doc["references"]}
    memo = {}
    def depth(rec, guard=0):
        aid = rec.get("artifact-id")
        if aid in memo: return memo[aid]
        memo[aid] = 0
        d = 0
        for x in dep_ids(rec):
            if x in refs:
                d = max(d, 1 + depth(refs[x]))
        memo[aid] = d
        return d
    tool = any((r.get("dependencies") or {}).get("tools") for r in [doc["artifact"]] + doc["references"])
    return depth(doc["artifact"]), tool

PLAIN = re.compile(r"^[A-Za-z0-9_.:/-]*$")

def check_project(ctx, case, tag, project, g, hist, before, foreign, metadefs, model, git, missing_ok=False, rgit=None):
    """Judge all trails of the closure of the root package.  before: audit_files() snapshot taken before the last
    invocation (None: everything was written by it).  foreign: {artifact-id: document} of the producer project.
    missing_ok: some earlier invocation in these workspaces ran with --no-audit: a step executed then has no trail, and
    Bob (warning "AUDIT ... failed") writes none for steps executed later on top of it - a missing trail is accepted,
    an existing one has to be truthful all the same.  rgit: None, or {"commit", "dirty"}: the project directory is a git
    repository in that state.  Returns (docs by workspace, statistics)."""
    import bob
    fail = lambda sig, detail: ctx.fail(sig, "%s: %s" % (tag, detail), case)
    now = audit_files(project)
    docs = {}
    stats = {"judged": 0, "fresh": 0, "foreign": 0, "nontrivial_trail": False, "nontrivial_fresh": False, "refs": 0, "toolrefs": 0}
    order = []
    todo = [(g.root, "root package")]
    while todo:
        ws, why = todo.pop()
        if ws in docs:
            continue
        i = g.steps[ws]
        wsabs = os.path.join(project, ws)
        apath = os.path.join(os.path.dirname(wsabs), "audit.json.gz")
        what = "%s step of %s (%s)" % (i.label, i.pkgname, ws)
        if not os.path.isdir(wsabs):
            fail("result-missing", "%s was not produced although it is %s" % (what, why))
            continue
        if not os.path.exists(apath):
            docs[ws] = None
            if missing_ok and not os.path.lexists(apath):
                # (nothing foreign is without trail: the dependencies were needed locally)
                ctx.label("trail-missing-after-no-audit")
                for d in g.deps(i):
                    todo.append((d, "dependency of " + what))
            else:
                fail("audit-missing", "%s has a workspace but no audit.json.gz (needed as %s)" % (what, why))
            continue
        try:
            doc = read_audit(apath)
        except (OSError, ValueError, EOFError) as e:
            fail("audit-unreadable", "%s: %s" % (what, e))
            continue
        docs[ws] = doc
        order.append(ws)
        if not (isinstance(doc, dict) and isinstance(doc.get("artifact"), dict) and isinstance(doc.get("references"), list)):
            fail("schema", "%s: document is not {artifact: {...}, references: [...]}" % what)
            docs[ws] = None
            continue
        is_foreign = doc["artifact"].get("artifact-id") in foreign
        if not is_foreign:
            for d in g.deps(i):
                todo.append((d, "dependency of " + what))

    for ws in order:
        doc = docs[ws]
        if doc is None:
            continue
        i = g.steps[ws]
        wsabs = os.path.join(project, ws)
        what = "%s step of %s (%s)" % (i.label, i.pkgname, ws)
        art = doc["artifact"]
        rel = os.path.relpath(os.path.join(os.path.dirname(wsabs), "audit.json.gz"), project)
        fresh = before is None or before.get(rel) != now.get(rel)
        is_foreign = art.get("artifact-id") in foreign
        stats["judged"] += 1
        stats["fresh"] += bool(fresh)
        stats["foreign"] += bool(is_foreign)
        # (1) structure
        for n, rec in enumerate([art] + doc["references"]):
            errs = schema_errors(rec)
            if errs:
                fail("schema", "%s: %s: %s" % (what, "artifact" if n == 0 else "reference %d" % (n - 1), "; ".join(errs[:4])))
                break
        else:
            errs = None
        if errs:
            continue
        # (7) artifact ids are a function of the record
        refs = {}
        for rec in doc["references"]:
            if rec["artifact-id"] in refs and refs[rec["artifact-id"]] != rec:
                fail("artifact-id-not-a-function-of-the-record", "%s: two different references carry the id %s" % (what, rec["artifact-id"]))
            refs[rec["artifact-id"]] = rec
        for rec in [art] + doc["references"]:
            try:
                aid = artifact_id(rec)
            except ValueError as e:
                fail("schema", "%s: %s" % (what, e)); break
            if aid != rec["artifact-id"]:
                fail("artifact-id-not-a-function-of-the-record", "%s: record of %s step of %s says artifact-id %s, the digest of the record "
                     "is %s" % (what, rec["meta"].get("step"), rec["meta"].get("package"), rec["artifact-id"], aid))
                break
        # (2) closure
        reach = set()
        stack = dep_ids(art)
        while stack:
            x = stack.pop()
            if x in reach: continue
            if x not in refs:
                fail("trail-incomplete", "%s: artifact-id %s is listed as dependency but has no record in `references` "
                     "(%d references)" % (what, x, len(refs)))
                continue
            reach.add(x)
            stack += dep_ids(refs[x])
        if set(refs) - reach:
            ctx.label("unreachable-references")
        stats["refs"] = max(stats["refs"], len(refs))
        # (8) foreign results carry the producer's complete document
        actual = tree_hash(wsabs).hex()
        if is_foreign:
            if doc != foreign[art["artifact-id"]]:
                fail("foreign-trail-altered", "%s: was taken over from the producer project (artifact-id %s) but the document differs "
                     "from the producer's" % (what, art["artifact-id"]))
            if art["variant-id"] != i.vid:
                ctx.label("foreign-result-with-other-variant-id")
        else:
            # (3) ids
            if art["variant-id"] != i.vid:
                fail("variant-id-wrong", "%s: trail says variant-id %s, the step has %s (meta: %r)" % (what, art["variant-id"], i.vid, art["meta"]))
        if art["result-hash"] != actual:
            fail("result-hash-wrong", "%s: trail says result-hash %s, the workspace content hashes to %s%s" %
                 (what, art["result-hash"], actual, " (taken over from the producer project)" if is_foreign else ""))
        d = art["dependencies"]
        arg_ids = list(d.get("args") or [])
        tool_ids = dict(d.get("tools") or {})
        unexecuted_src = (i.label == "src" and art["env"] == "" and not arg_ids and not tool_ids)
        if i.label == "src":
            if art["build-id"] != art["result-hash"]:
                fail("build-id-wrong", "%s: checkout step with build-id %s != result-hash %s" % (what, art["build-id"], art["result-hash"]))
        # (5) dependencies
        ok_deps = True
        if unexecuted_src and (i.args or i.tools):
            ctx.label("checkout-trail-without-execution")
            ok_deps = False
        elif len(arg_ids) != len(i.args):
            fail("dependencies-wrong", "%s: %d arguments recorded, the step has %d" % (what, len(arg_ids), len(i.args)))
            ok_deps = False
        elif set(tool_ids) != set(i.tools):
            fail("dependencies-wrong", "%s: tools %r recorded, the step has %r" % (what, sorted(tool_ids), sorted(i.tools)))
            ok_deps = False
        elif ("sandbox" in d) != (i.sandbox is not None):
            fail("dependencies-wrong", "%s: sandbox recorded: %s, step has sandbox: %s" % (what, "sandbox" in d, i.sandbox is not None))
            ok_deps = False
        pairs = []
        if ok_deps:
            pairs = [("argument %d" % (n + 1), a, w) for n, (a, w) in enumerate(zip(arg_ids, i.args))] + \
                    [("tool " + n, tool_ids[n], i.tools[n]) for n in sorted(i.tools)] + \
                    ([("sandbox", d["sandbox"], i.sandbox)] if i.sandbox else [])
        bids = []
        for role, rid, dws in pairs:
            rec = refs.get(rid)
            if rec is None:
                ok_deps = False
                continue                       # reported by (2)
            di = g.steps[dws]
            if role != "sandbox":
                bids.append(bytes.fromhex(rec["build-id"]))
            # a dependency that was downloaded / taken from the share carries its producer's trail: artifacts are found by
            # Build-Id, the producer's Variant-Id may legitimately differ (e.g. a variable that only enters the id of a
            # checkout step whose sources are identical)
            dep_foreign = rid in foreign
            if rec["meta"].get("step") != di.label or (not is_foreign and not dep_foreign and rec["variant-id"] != di.vid):
                fail("dependencies-wrong", "%s: %s is the %s step of %s with variant-id %s, the referenced record is a %s step of %s "
                     "with variant-id %s" % (what, role, di.label, di.pkgname, di.vid, rec["meta"].get("step"), rec["meta"].get("package"), rec["variant-id"]))
            if is_foreign or dep_foreign:
                if rec["variant-id"] != di.vid: ctx.label("foreign-result-with-other-variant-id")
                if is_foreign:
                    continue
            cur = docs.get(dws)
            if cur is None:
                continue
            ca = cur["artifact"]
            if rec["result-hash"] != ca.get("result-hash"):
                fail("dependency-record-differs-from-used-input", "%s: %s is recorded with result-hash %s but the dependency's own trail "
                     "(%s) says %s" % (what, role, rec["result-hash"], dws, ca.get("result-hash")))
            elif fresh and rid != ca.get("artifact-id"):
                fail("dependency-record-stale", "%s: written by the last invocation, %s is recorded as artifact %s but the dependency's "
                     "trail (%s) is artifact %s" % (what, role, rid, dws, ca.get("artifact-id")))
        if i.label != "src" and ok_deps:
            want = build_id_of(i.step, bids)
            if want is None:
                ctx.label("build-id-not-recomputed(fingerprint/non-relocatable)")
            elif want.hex() != art["build-id"]:
                fail("build-id-wrong", "%s: trail says build-id %s, the digest over the step and the build-ids of the referenced "
                     "records is %s" % (what, art["build-id"], want.hex()))
        # (4) meta data
        meta = art["meta"]
        key = (i.recipe, i.label, art["variant-id"])
        if meta["recipe"] != i.recipe or meta["step"] != i.label or meta.get("language", "bash") != i.lang:
            fail("meta-wrong", "%s (recipe %s, language %s): meta is %r" % (what, i.recipe, i.lang, meta))
        if meta["bob"] != bob.BOB_VERSION and not is_foreign:
            fail("meta-wrong", "%s: meta.bob is %r, running %r" % (what, meta["bob"], bob.BOB_VERSION))
        if meta["package"].split("/")[-1] not in i.pkgnames and not (i.label == "src" or is_foreign):
            fail("meta-wrong", "%s: meta.package is %r" % (what, meta["package"]))
        if not g.truncated:
            if fresh and not is_foreign:
                if meta["package"] not in i.stacks:
                    fail("meta-wrong", "%s: written by the last invocation with meta.package %r, the package paths of this variant "
                         "are %r" % (what, meta["package"], sorted(i.stacks)[:6]))
            elif meta["package"] not in hist.stacks.get(key, ()):
                fail("meta-wrong", "%s: meta.package %r never was a package path of this variant (%r)" %
                     (what, meta["package"], sorted(hist.stacks.get(key, ()))[:6]))
        me = art.get("metaEnv", {})
        # (packages of one recipe whose steps are identical share the workspace; their meta variables may differ)
        if fresh and not is_foreign:
            if me not in i.metaenvs:
                fail("metaenv-wrong", "%s: written by the last invocation with metaEnv %r, the package has %r" % (what, me, i.metaenvs))
        elif me not in i.metaenvs:
            if me in hist.metaenv.get(key, ()):
                ctx.label("stale-metaenv-of-skipped-or-foreign-step")
                if STRICT_METAENV and not is_foreign:
                    fail("metaenv-stale-after-metadata-only-edit", "%s: metaEnv %r is the value of an earlier state, the package now "
                         "has %r (no step was re-executed)" % (what, me, i.metaenvs))
            else:
                fail("metaenv-wrong", "%s: metaEnv %r, the package has %r (earlier states: %r)" % (what, me, i.metaenvs, hist.metaenv.get(key)))
        if not is_foreign:
            # state of the recipes ("If Bob recognizes that the recipes are managed in a supported SCM ...")
            rc = art.get("recipes")
            if rgit is None:
                if rc is not None:
                    fail("recipes-state-wrong", "%s: the project is under no version control, recorded recipes state: %r" % (what, rc))
            elif not isinstance(rc, dict) or rc.get("type") != "git" or rc.get("dir") != "." or rc.get("commit") != rgit["commit"] or \
                    not isinstance(rc.get("dirty"), bool) or not isinstance(rc.get("description"), str) or rc.get("remotes") != {} or \
                    (fresh and rc["dirty"] is not rgit["dirty"]) or rc["description"].endswith("-dirty") is not rc["dirty"]:
                fail("recipes-state-wrong", "%s: the recipes are a git repository at commit %s, %s%s; recorded: %r" %
                     (what, rgit["commit"], "modified" if rgit["dirty"] else "unmodified", "" if fresh else " (trail of an earlier invocation)", rc))
            for k, v in metadefs.items():
                if k in ("bob", "recipe", "package", "step", "language"):
                    continue
                if meta.get(k) != v:
                    fail("meta-define-lost", "%s: built with -M%s=%s, meta.%s is %r" % (what, k, v, k, meta.get(k)))
            # audit files
            want_files = {}
            for var, (fn, enc) in (i.step.getAuditFileNames() or {}).items():
                with open(os.path.join(wsabs, fn), "rb") as f:
                    raw = f.read()
                want_files[var] = base64.b64encode(raw).decode("ascii") if enc == "base64" else raw.decode(enc)
            if art.get("files", {}) != want_files:
                fail("audit-files-wrong", "%s: files %r, expected the content of %r" % (what, {k: v[:40] for k, v in art.get("files", {}).items()}, sorted(want_files)))
            # exported variables of the step show up in the environment dump
            if not unexecuted_src:
                if "declare -" not in art["env"]:
                    fail("env-wrong", "%s: env is not a `declare -p` dump: %r" % (what, art["env"][:80]))
                common = set(i.envs[0].items()).intersection(*[set(e.items()) for e in i.envs[1:]])
                for k, v in sorted(common):
                    if PLAIN.match(v) and ('declare -x %s="%s"\n' % (k, v)) not in art["env"]:
                        fail("env-wrong", "%s: the step exports %s=%r, not found in the recorded environment" % (what, k, v))
        # (6) SCM records
        if i.label == "src":
            want_scms = []
            for scm in i.step.getScmList():
                p = scm.getProperties(False)
                if p["scm"] == "import":
                    want_scms.append(("import", p.get("dir", "."), p["url"]))
                elif p["scm"] == "url":
                    want_scms.append(("url", os.path.join(p.get("dir", "."), p["fileName"]), p["url"]))
                elif p["scm"] == "git":
                    want_scms.append(("git", p.get("dir", "."), p["url"]))
                else:
                    want_scms.append((p["scm"], p.get("dir", "."), None))
            got = art["scms"]
            if [(s["type"], s["dir"]) for s in got] != [(t, dd) for t, dd, _ in want_scms]:
                fail("scm-records-wrong", "%s: SCMs recorded %r, the recipe has %r" % (what, [(s["type"], s["dir"]) for s in got], want_scms))
            else:
                for s, (t, dd, url) in zip(got, want_scms):
                    if t == "git":
                        body = next(r["body"] for r in model["recipes"] if r["name"] == i.recipe)
                        dirty = bool((body.get("gitscm") or {}).get("dirty"))
                        head = git_head(os.path.join(wsabs, dd))
                        if s.get("commit") != head or (git and head != git[1]) or s.get("dirty") is not dirty or s.get("remotes") != {"origin": url}:
                            fail("scm-records-wrong", "%s: git SCM in %s recorded as %r; HEAD is %s, remote %s, tracked file modified by "
                                 "the checkout script: %s" % (what, dd, s, head, url, dirty))
                        ctx.label("git-scm-record:" + ("dirty" if dirty else "clean"))
                        continue
                    if t not in ("import", "url"):
                        continue
                    p = os.path.join(wsabs, dd)
                    act = tree_hash(p).hex() if t == "import" else sha1_file(p).hex()
                    dg = s.get("digest") or {}
                    if dg.get("algorithm") != "sha1" or dg.get("value") != act or s.get("url") != url:
                        fail("scm-records-wrong", "%s: %s SCM in %s recorded as %r, the checkout hashes to %s (url %s)" % (what, t, dd, s, act, url))
        elif art["scms"]:
            fail("scm-records-wrong", "%s: SCM records in a %s step: %r" % (what, i.label, art["scms"]))
        lv, tool = levels(doc)
        if tool: stats["toolrefs"] += 1
        if tool and lv >= 2:
            stats["nontrivial_trail"] = True
            if fresh: stats["nontrivial_fresh"] = True
    return docs, stats

def archive_docs(arch):
    """[(tarball path, trail document | None | "<what is there instead of a regular file>")]"""
    out = []
    for dp, dn, fn in os.walk(arch):
        for f in fn:
            if not f.endswith(".tgz"):
                continue
            p = os.path.join(dp, f)
            doc = None
            with tarfile.open(p, "r:*") as tar:
                for ti in tar:
                    if ti.name == "meta/audit.json.gz":
                        if not ti.isreg():
                            doc = "%s%s" % ({tarfile.SYMTYPE: "symbolic link to ", tarfile.LNKTYPE: "hard link to "}.get(ti.type, "member of type %r " % ti.type), ti.linkname)
                        else:
                            doc = json.loads(gzip.decompress(tar.extractfile(ti).read()).decode("utf8"))
                        break
            out.append((p, doc))
    return out

# ---------------------------------------------------------------------------------------

def argv_for(model, meta, jobs, extra=()):
    a = ["dev", "r0"] + projgen.defines_argv(model)
    for k, v in sorted((meta or {}).items()):
        a += ["-M", "%s=%s" % (k, v)]
    if jobs: a += ["-j", str(jobs)]
    return a + list(extra)

def add_leaves(model, n, base_fid=940):
    """a copy of the model with n independent leaf recipes lf<i> (build + package script, no checkout) the root depends on:
    under -j they are the first steps to finish, at about the same time"""
    m = copy.deepcopy(model)
    for k in range(n):
        b = {"root": False, "inherit": [], "depends": [], "environment": {}, "privateEnvironment": {}, "metaEnvironment": {},
             "provideVars": {}, "provideDeps": [], "provideTools": {}, "checkoutDeterministic": False, "import": False,
             "shared": False, "relocatable": None, "tooldirs": False, "fp": False,
             "steps": {st_: {"setup": None, "script": None, "finalize": None, "vars": [], "varsWeak": [], "tools": [], "toolsWeak": []}
                       for st_ in projgen.STEPS}}
        b["steps"]["build"]["script"] = base_fid + 2 * k
        b["steps"]["package"]["script"] = base_fid + 2 * k + 1
        m["recipes"].append({"name": "lf%d" % k, "body": b, "multi": None})
        m["recipes"][0]["body"]["depends"].append({"name": "lf%d" % k, "use": ["result"], "forward": False, "env": {}, "if": None,
                                                   "checkoutDep": False, "tools": None})
    return m

def tracked_files(project):
    out = {}
    for dp, dn, fn in os.walk(project):
        if dp == project:
            dn[:] = [d for d in dn if d in ("recipes", "classes", "src")]
        for f in fn:
            if dp == project and not f.endswith(".yaml"):
                continue
            p = os.path.join(dp, f)
            with open(p, "rb") as fh:
                out[os.path.relpath(p, project)] = fh.read()
    return out

def git_init_project(base, project):
    """put the freshly rendered project (nothing built yet) under version control: -> {"commit", "files"}"""
    import subprocess
    env = bobproc.clean_env(base)
    for a in (["init", "-q", "-b", "master", "."], ["add", "-A"], ["commit", "-q", "-m", "recipes"]):
        subprocess.run(["git"] + a, cwd=project, env=env, check=True, stdin=subprocess.DEVNULL,
                       stdout=subprocess.DEVNULL, stderr=subprocess.DEVNULL)
    return {"commit": git_head(project), "files": tracked_files(project)}

def recipes_state(project, rg):
    """what `git describe --dirty` is about: a tracked file is modified or gone (untracked files do not count)"""
    if rg is None:
        return None
    cur = tracked_files(project)
    return {"commit": rg["commit"], "dirty": any(cur.get(k) != v for k, v in rg["files"].items())}

def refused_for_trail(ctx, case, tag, r):
    """No generated history gives Bob a reason to complain about an audit trail (the artifacts in the archive / share are
    the ones of the producer whose trails were just judged): such an error means Bob itself read a wrong trail."""
    if r.rc != 0:
        for l in r.err.splitlines():
            if "audit" in l.lower() and l.lstrip().lower().startswith(("build error", "parse error", "error", "bob error")):
                ctx.fail("bob-rejects-its-own-trail", "%s: the build failed with: %s" % (tag, l.strip()[:300]), case)
                return

def run_case(ctx, case, confirm=False):
    run = bobproc.script if confirm else bobproc.direct
    kind = case["kind"]
    base = ctx.tmpdir()
    try:
        urlbase = os.path.join(base, "urlsrc")
        os.makedirs(urlbase)
        for n in range(4):
            with open(os.path.join(urlbase, "u%d.txt" % n), "wb") as f:
                f.write(url_content(n))
        m0 = overlay(case["model"], case)
        git = git_upstream(ctx) if case.get("git") else None
        jobs = case.get("jobs")
        if case.get("rgit"):
            # the recipes are tracked by git (Bob then queries the repository state while the first trails are written)
            # and several independent packages are built in parallel
            m0 = add_leaves(m0, 2 + case["rgit"] % 3)
            jobs = 2 + (case["rgit"] // 3) % 3
        noaudit = list(case.get("noaudit") or [])
        hist = Hist()
        labels = ["kind:" + kind, "jobs:%s" % jobs] + (["recipes-in-git"] if case.get("rgit") else [])
        sample = {"kind": kind, "recipes": len(m0["recipes"])}
        nontrivial = False
        agg = {"judged": 0, "fresh": 0, "foreign": 0, "refs": 0, "toolrefs": 0}
        def judge(tag, project, model, before, foreign, meta, missing_ok=False, rgit=None):
            g = load_graph(project, model.get("defines"))
            if g is None or g.root is None:
                if g is not None: g.close()
                ctx.label("graph-unavailable")          # harness trouble, never a verdict
                return None, None
            try:
                hist.add(g)
                docs, s = check_project(ctx, case, tag, project, g, hist, before, foreign, meta, model, git, missing_ok, rgit)
            finally:
                g.close()
            for k in agg:
                agg[k] = max(agg[k], s[k]) if k == "refs" else agg[k] + s[k]
            return docs, s
        def remember(project, model):
            """a state whose build failed still may have produced trails: remember its package paths / meta variables"""
            g = load_graph(project, model.get("defines"))
            if g is not None:
                hist.add(g); g.close()

        if kind in ("fresh", "incr"):
            W = os.path.join(base, "w"); os.makedirs(W)
            edits = case["edits"] if kind == "incr" else []
            states = [(m0, "initial")] + projgen.apply_history(m0, edits)
            sample["edits"] = [d for _, d in states[1:]]
            labels += ["edit:" + e[0] for e in edits]
            rejected = 0
            rg = None
            lenient = False
            for n, (m, desc) in enumerate(states):
                render(m, W, urlbase, git=git)
                if n == 0 and case.get("rgit"):
                    rg = git_init_project(base, W)
                rstate = recipes_state(W, rg)
                before = audit_files(W) if n else None
                # an invocation without audit trail in between (never the first, never the last one)
                na = 0 < n < len(states) - 1 and n < len(noaudit) and bool(noaudit[n])
                if na:
                    lenient = True
                    labels.append("no-audit-invocation")
                    desc += ", --no-audit"
                r = run(W, argv_for(m, case["meta"], jobs, ["--no-audit"] if na else []), env_extra=C1.env_for(W))
                if r.rc not in (0, 1):
                    ctx.fail("internal-error", "state %d (%s): exit status %d\n%s" % (n, desc, r.rc, r.err[-1500:]), case)
                if r.rc != 0:
                    refused_for_trail(ctx, case, "state %d (%s)" % (n, desc), r)
                    rejected += 1
                    remember(W, m)
                    continue
                docs, s = judge("state %d (%s)" % (n, desc), W, m, before, {}, case["meta"], lenient, rstate)
                if s and n and s["nontrivial_fresh"]:
                    nontrivial = True
                t = (case.get("touch") or [None] * 3)[n] if n < 3 else None
                if t is not None and docs and n + 1 < len(states):
                    srcs = sorted(ws for ws, d in docs.items() if d and d["artifact"]["meta"].get("step") == "src")
                    if srcs:
                        # the user edits checked out sources by hand (Bob re-hashes source workspaces on every build)
                        with open(os.path.join(W, srcs[t % len(srcs)], "manual-%d.txt" % n), "w") as f:
                            f.write("edited by hand after state %d\n" % n)
                        labels.append("manual-source-edit")
            if rejected:
                labels.append("some-state-rejected")
        else:
            # (shared kind, half of the cases: the producer also uploads what it installs into the share, the consumer may
            # take results from either place)
            arch = os.path.join(base, "archive") if kind == "download" or case.get("sh_upload") else None
            store = os.path.join(base, "store") if kind == "shared" else None
            PA = os.path.join(base, "a", "w")
            PB = os.path.join(base, "bbbbbbbbbbbb", "deeper", "project-b")
            os.makedirs(PA); os.makedirs(PB)
            render(m0, PA, urlbase, arch, store, git)
            rg = git_init_project(base, PA) if case.get("rgit") else None
            extra = ["--upload", "--download=no"] if arch else []
            if arch and kind == "shared": labels.append("shared+upload")
            ra = run(PA, argv_for(m0, case["meta"], jobs, extra), env_extra=C1.env_for(PA))
            if ra.rc not in (0, 1):
                ctx.fail("internal-error", "producer: exit status %d\n%s" % (ra.rc, ra.err[-1500:]), case)
            if ra.rc != 0:
                refused_for_trail(ctx, case, "producer", ra)
                ctx.record(jhash(case), False, labels + ["producer-state-rejected"], sample)
                return
            docsA, sA = judge("producer", PA, m0, None, {}, case["meta"], False, recipes_state(PA, rg))
            foreign = {}
            for rel in audit_files(PA):
                try:
                    doc = read_audit(os.path.join(PA, rel))
                    foreign[doc["artifact"]["artifact-id"]] = doc
                except (OSError, ValueError, KeyError, TypeError, EOFError):
                    pass
            in_archive = {}
            if arch:
                tars = archive_docs(arch)
                if not tars:
                    ctx.fail("nothing-uploaded", "producer: --upload succeeded but the archive holds no artifact", case)
                for p, doc in tars:
                    rel = os.path.relpath(p, arch)
                    if doc is None:
                        ctx.fail("uploaded-artifact-without-trail", "artifact %s has no meta/audit.json.gz" % rel, case)
                        continue
                    if isinstance(doc, str):
                        ctx.fail("uploaded-trail-not-a-file", "artifact %s: meta/audit.json.gz is a %s" % (rel, doc), case)
                        continue
                    aid = (doc.get("artifact") or {}).get("artifact-id")
                    if aid not in foreign:
                        ctx.fail("uploaded-trail-differs", "artifact %s carries a trail with artifact-id %s which is not the trail of any "
                                 "workspace of the uploader" % (rel, aid), case)
                    elif doc != foreign[aid]:
                        ctx.fail("uploaded-trail-differs", "artifact %s: meta/audit.json.gz differs from the uploader's workspace trail %s" % (rel, aid), case)
                    in_archive[aid] = doc
                bids = {d["artifact"].get("build-id") for d in in_archive.values()}
                for ws, doc in (docsA or {}).items():
                    if doc and doc["artifact"]["meta"].get("step") == "dist" and doc["artifact"]["build-id"] not in bids:
                        ctx.label("built-package-not-in-archive")
            hB = projgen.apply_history(m0, case["edits"][:case.get("dl_keep", 0)])
            cstates = [(hB[-1][0] if hB else m0, "consumer")]
            if hB and case.get("dl_back"):
                # second consumer invocation in the same workspaces: the edits are taken back, what was built locally
                # is now replaced by the producer's results
                back = copy.deepcopy(m0); back["clock"] = hB[-1][0].get("clock", 0) + 10
                cstates.append((back, "consumer after taking the edits back"))
            sample["edits"] = [d for _, d in hB]
            labels.append("consumer-edits:%d" % len(hB))
            extra = ["--download=" + case.get("dlmode", "yes")] if arch else []
            lenient = False
            for n, (mB, tag) in enumerate(cstates):
                render(mB, PB, urlbase, arch, store, git)
                before = audit_files(PB) if n else None
                na = n == 0 and len(cstates) > 1 and bool(case.get("consumer_noaudit"))
                if na:
                    lenient = True
                    labels.append("no-audit-invocation")
                    tag += ", --no-audit"
                rb = run(PB, argv_for(mB, case["meta2"], jobs, extra + (["--no-audit"] if na else [])), env_extra=C1.env_for(PB))
                if rb.rc not in (0, 1):
                    ctx.fail("internal-error", "%s: exit status %d\n%s" % (tag, rb.rc, rb.err[-1500:]), case)
                if rb.rc != 0:
                    refused_for_trail(ctx, case, tag, rb)
                    if n == 0:
                        ctx.record(jhash(case), False, labels + ["consumer-state-rejected"], sample)
                        return
                    labels.append("consumer-second-state-rejected")
                    break
                docsB, sB = judge(tag, PB, mB, before, foreign, case["meta2"], lenient)
                if not sB:
                    break
                if arch and kind == "download":
                    for ws, doc in (docsB or {}).items():
                        if doc and doc["artifact"]["artifact-id"] in foreign and doc["artifact"]["artifact-id"] not in in_archive:
                            ctx.fail("foreign-trail-altered", "%s: %s carries the uploader's trail %s which is in no artifact of the "
                                     "archive" % (tag, ws, doc["artifact"]["artifact-id"]), case)
                if sB["foreign"]:
                    labels.append(("downloaded" if kind == "download" else "shared-or-downloaded" if arch else "shared-used") + (":second-invocation" if n else ""))
                    if sB["judged"] > sB["foreign"] and not n: labels.append("mixed-local-and-foreign")
                    nontrivial = nontrivial or sB["nontrivial_trail"]
        labels.append("refs:%s" % ("0" if agg["refs"] == 0 else "1-3" if agg["refs"] <= 3 else "4-9" if agg["refs"] <= 9 else "10+"))
        labels.append("toolrefs" if agg["toolrefs"] else "no-toolrefs")
        sample.update(judged=agg["judged"], max_refs=agg["refs"], trails_with_tools=agg["toolrefs"], foreign=agg["foreign"])
        ctx.extra["trails_judged"] = ctx.extra.get("trails_judged", 0) + agg["judged"]
        ctx.record(jhash(case), nontrivial, labels, sample)
    finally:
        vlib.rmtree(base)

I = st.integers(0, 30)
METAK = ["PROJ", "ci.run-id", "A_b", "step"]
METAV = ["", "x y", "1", "a=b", "v-ü€"]

def case_st(quick):
    return st.fixed_dictionaries({
        "model": st.one_of(projgen.model_st(2, 5 if quick else 6, richness=1),
                           projgen.model_st(3, 5 if quick else 6, richness=1, dense=True)),
        "kind": st.sampled_from(["fresh", "incr", "incr", "incr", "incr", "download", "download", "download", "shared", "shared"]),
        "edits": st.lists(projgen.build_edit_st, min_size=1, max_size=3),
        "noaudit": st.lists(st.sampled_from([0, 0, 1]), min_size=3, max_size=3),
        "consumer_noaudit": st.sampled_from([False, False, True]),
        "sh_upload": st.booleans(),
        "rgit": st.one_of(*([st.just(0)] * 7 + [st.integers(1, 9)])),
        "dl_keep": st.sampled_from([0, 0, 1, 1, 2]),
        "dlmode": st.sampled_from(["yes", "yes", "deps"]),
        "dl_back": st.booleans(),
        "meta": st.dictionaries(st.sampled_from(METAK), st.sampled_from(METAV), max_size=2),
        "meta2": st.dictionaries(st.sampled_from(METAK), st.sampled_from(METAV), max_size=2),
        "metaenv": st.lists(st.tuples(I, st.sampled_from(MVARS), st.sampled_from(MVALS)).map(list), max_size=3),
        "url": st.lists(st.tuples(I, I, st.booleans()).map(list), max_size=2),
        "afiles": st.lists(I, max_size=2),
        "git": st.one_of(st.just([]), st.just([]), st.just([]), st.just([]), st.just([]), st.just([]), st.just([]),
                         st.lists(st.tuples(I, st.booleans()).map(list), min_size=1, max_size=1)),
        "touch": st.lists(st.one_of(st.none(), st.none(), I), min_size=3, max_size=3),
        "shared": st.lists(I, min_size=1, max_size=4),
        "jobs": st.sampled_from([None, None, 2]),
    })

def check(ctx, case):
    try:
        run_case(ctx, case)
    except Violation as v:
        try:
            run_case(ctx, case, confirm=True)
        except Violation as w:
            raise w
        ctx.label("unconfirmed-in-fresh-process:" + v.signature)

def shard(ctx):
    bobproc.warm()
    run_hypothesis(ctx, case_st(ctx.quick()), lambda c: check(ctx, c), ctx.n(512, 6000), shrink=False, minimize=("edits",))

def replay(ctx, case):
    run_case(ctx, case, confirm=True)

FINDINGS = {
    # only reachable with STRICT_METAENV: stale meta variables in trails of steps skipped after a metadata-only edit
    "C14-stale-metaenv": lambda sig, case, detail="": sig == "metaenv-stale-after-metadata-only-edit",
    # the relocatable flag changes the Build-Id (path tag) but not the Variant-Id: the package is not rebuilt and keeps its
    # old trail, while the trails of rebuilt dependents are derived from the new Build-Id
    "C14-stale-build-id-after-relocatable-change": lambda sig, case, detail="": sig == "build-id-wrong" and any(
        isinstance(e, list) and e and e[0] == "flag" and e[2] % 3 == 0 for e in (case.get("edits") or [])),
}
