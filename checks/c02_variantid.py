"""C02 - Variant-Id separates exactly what a step executes and consumes."""
import os, re, hashlib, json, shutil
from hypothesis import strategies as st

import vlib
from vlib import projgen, pkgdump, scripts
from vlib.runner import run_hypothesis, Violation, jhash

PROP = "C02"
LEVEL = "exploration"
RULE = ("A generated project (optionally extended by 'twin' leaf recipes that carry the same fragments in different Setup/"
        "Script/Finalize placements across class and recipe) and its single-edit neighbours (script, class script, Setup/Script/Finalize placement, "
        "variable value at every definition site, variable-list membership incl. weak, tool path/libs/environment/"
        "use, dependency add/remove/reorder/re-parameterise, provided variable/deps, import source spec) are parsed "
        "in-process. For every valid step an execution descriptor is computed WITHOUT the digest code: (kind, the "
        "script text Bob will run minus source annotations [checkout: + symbolic import spec from the model], sorted strong "
        "(name,value) pairs, sorted tools (name, descriptor of provider, path, libs), descriptors of the valid "
        "arguments in order). Over all steps of the same kind in project+neighbours: descriptor equal <=> Variant-Id "
        "equal. Re-parsing the original after the edits (revert) must restore every id. Non-trivial: a pair of steps "
        "from different stacks/recipes with equal descriptors, or a pair whose descriptors differ in exactly one "
        "component; distinct = hash of the descriptor pair.")
ASSUMPTIONS = ["weak variables/tools come from separate name universes (W*, w*), so 'strong' is decidable from names",
               "steps with fingerprint or sandbox are not generated here (covered by C03/C07)"]
TIME_BUDGET = {"quick": 240, "thorough": 1500}
BATCH = 16

ID_EDITS = ["inc_mod", "inc_mod", "inc_toggle", "frag", "frag", "move_frag", "var_value", "var_value", "varlist", "varlist", "dep_add", "dep_remove",
            "dep_param", "dep_swap", "provide_var", "tool_attr", "tool_attr", "tool_use", "file_add", "define",
            "default_env", "class_frag", "class_frag", "provide_deps", "flag"]
I = st.integers(0, 30)
id_edit_st = st.tuples(st.sampled_from(ID_EDITS), I, I, I, I).map(list)

FRAG_RE = re.compile(r"# verif fragment (\d+)")

def h(*parts):
    m = hashlib.blake2b(digest_size=12)
    m.update(json.dumps(parts, sort_keys=True).encode())
    return m.hexdigest()

def body_of(model, pkg):
    rname = pkg.getRecipe().getName()
    for r in model["recipes"]:
        if r["name"] == rname:
            return r
    return None

class Desc:
    """descriptors of all steps of one parsed project"""
    def __init__(self, model):
        self.model = model
        self.memo = {}
        self.comp = {}

    def of(self, step):
        if not step.isValid():
            return None
        pkg = step.getPackage()
        key = ("/".join(pkg.getStack()), step.getLabel())
        if key in self.memo:
            return self.memo[key]
        kind = step.getLabel()
        # the text Bob will execute, minus the source annotations (_BOB_SOURCES[..]='Recipe x') that only
        # serve error messages
        script = "\n".join(l for l in step.getScript().split("\n") if not l.startswith("_BOB_SOURCES[$LINENO]="))
        # files included with $<<file>> are unpacked into temporary files whose shell variable is named after the recipe
        # (_<base><n>): the name is no part of what is executed
        names = re.findall(r"^(_[A-Za-z0-9_]+)=\$\(mktemp\)$", script, re.M)
        for i, nme in sorted(enumerate(names), key=lambda t: -len(t[1])):
            script = script.replace(nme, "_INCLUDED%d_" % i)
        if kind == "src":
            # SCMs are described symbolically, from the model (not from Bob's digest script)
            r = body_of(self.model, pkg)
            if r["body"].get("import"):
                script += "\n#import src/%s -> imp, prune=%s" % (r["name"], bool(r["body"].get("importPrune", True)))
            if r["body"].get("urlfile"):
                import hashlib
                data = (self.model.get("files") or {}).get(r["name"] + "/u.txt", "").encode()
                script += "\n#url sha1 %s -> url/u.txt" % hashlib.sha1(data).hexdigest()
        env = sorted((k, v) for k, v in step.getEnv().items() if k not in scripts.WEAKVARS)
        # weakly used tools take part in the Variant-Id like strong ones (only the Build-Id relaxes them)
        tools = sorted((n, self.of(t.getStep()), t.getPath(), list(t.getLibs()))
                       for n, t in step.getTools().items())
        args = [self.of(a) for a in step.getArguments() if a.isValid()]
        comp = {"script": h(script), "env": h(env), "tools": h(tools), "args": h(args)}
        d = h(kind, comp)
        self.memo[key] = d
        self.comp[d] = (comp, script, env)
        return d

def collect(project_dir, model, inconsistent=None):
    """-> list of (kind, stack, recipe, desc, vid, comp) for all valid steps, or None if Bob rejects the project;
    steps whose id is not the digest of their own reported inputs are appended to `inconsistent` instead"""
    if inconsistent is None:
        inconsistent = []
    from bob.errors import BobError
    with pkgdump.in_dir(project_dir):
        try:
            rs, ps = pkgdump.load(project_dir, model.get("defines"))
            root = ps.getRootPackage()
        except BobError:
            return None
        D = Desc(model)
        out = []
        import asyncio
        from bob.cmds.build.build import ExecutableStep, LazyIR
        loop = asyncio.new_event_loop()
        async def vids(steps):
            return [s.getVariantId() for s in steps]
        for stack, pkg, via in pkgdump.walk(root, 1500):
            if not stack:
                continue
            for step in (pkg.getCheckoutStep(), pkg.getBuildStep(), pkg.getPackageStep()):
                if step.isValid():
                    # Is the reported id the digest of the arguments and tools that the very same step reports?  Below a
                    # package that was merged with an identical one (listed finding) Bob shows the first visitor's sub-tree
                    # ids next to the tools of the current context: such steps are reported on their own, not compared.
                    own = loop.run_until_complete(ExecutableStep.fromStep(step, LazyIR).getDigestCoro(vids))
                    if own != step.getVariantId():
                        inconsistent.append(("/".join(stack), step.getLabel(), step.getVariantId().hex(), own.hex()))
                        continue
                    d = D.of(step)
                    deps = [("/".join(a.getPackage().getStack()), a.getLabel()) for a in step.getArguments() if a.isValid()] + \
                           [("/".join(t.getStep().getPackage().getStack()), t.getStep().getLabel()) for t in step.getTools().values()]
                    out.append((step.getLabel(), "/".join(stack), pkg.getRecipe().getName(), d, step.getVariantId().hex(), D.comp[d], deps))
        loop.close()
        return out

def fin_count(model, recipe_name, kind):
    """number of non-empty Finalize fragments in the inheritance chain of a recipe's step"""
    step = {"src": "checkout", "build": "build", "dist": "package"}[kind]
    r = [x for x in model["recipes"] if x["name"] == recipe_name]
    if not r:
        return 0
    bodies = [r[0]["body"]] + list((r[0].get("multi") or {}).values())
    seen, todo = set(), []
    for b in bodies:
        todo += list(b.get("inherit") or [])
    while todo:
        c = todo.pop()
        if c in seen or c not in model["classes"]:
            continue
        seen.add(c)
        bodies.append(model["classes"][c])
        todo += list(model["classes"][c].get("inherit") or [])
    return sum(1 for b in bodies if ((b.get("steps") or {}).get(step) or {}).get("finalize") is not None)

def frags(script_text):
    return [int(x) for x in FRAG_RE.findall(script_text)]

def run_case(ctx, case):
    model, edits = case["model"], case["edits"]
    if case.get("twins"):
        model = projgen.add_twins(model, case["twins"])
    if case.get("toolchains") is not None:
        model = projgen.add_toolchains(model, case["toolchains"])
    base = ctx.tmpdir()
    try:
        variants = [("original", model)]
        for n, e in enumerate(edits):
            m2, desc = projgen.apply_edit(model, e, [model])
            if desc != "noop":
                variants.append(("neighbour %d: %s" % (n, desc), m2))
        variants.append(("original again (revert)", model))
        by_desc, by_vid = {}, {}
        cands, depmap = [], {}
        vmodels = dict(variants)
        orig_ids = None
        nontriv = 0
        labels = set()
        nsteps = 0
        for vi, (vname, m) in enumerate(variants):
            d = os.path.join(base, "p%d" % vi)
            os.makedirs(d)
            projgen.render(m, d)
            odd = []
            steps = collect(d, m, odd)
            if steps is None:
                labels.add("variant-rejected")
                continue
            for (ostack, olabel, ovid_, own_) in odd[:1]:
                ctx.fail("step-id-inconsistent-with-own-inputs", "%s: %s step of %s has Variant-Id %s but the digest over the arguments and "
                         "tools it reports is %s (%d such steps)" % (vname, olabel, ostack, ovid_, own_, len(odd)), case)
            if odd:
                labels.add("merged-package-subtree")
            ids = {(k, s): v for k, s, r, dsc, v, c, dp in steps}
            if vname == "original":
                orig_ids = ids
            if vname.startswith("original again") and orig_ids is not None and ids != orig_ids:
                diff = [k for k in ids if ids.get(k) != orig_ids.get(k)][:3]
                ctx.fail("revert-does-not-restore-ids", "parsing the original project again (other directory) gives other ids for %r" % diff, case)
            for kind, stack, recipe, dsc, vid, comp, deps in steps:
                nsteps += 1
                me = (vname, stack, recipe)
                depmap[(vname, stack, kind)] = [(vname, ds, dk) for ds, dk in deps]
                if (kind, dsc) in by_desc:
                    ovid, owho = by_desc[(kind, dsc)]
                    if owho[1:] != me[1:]:
                        nontriv += 1
                    if ovid != vid:
                        cands.append((kind, owho, me, "same-execution-different-id", "%s step of %r and of %r run the same fragments with the same "
                                 "strong variables, tools and inputs but have Variant-Ids %s / %s" % (kind, owho, me, ovid, vid),
                                 dict(case, pair={"a": owho, "b": me, "frags": frags(comp[1]),
                                                  "finalizes": [fin_count(vmodels[owho[0]], owho[2], kind), fin_count(m, recipe, kind)]})))
                else:
                    by_desc[(kind, dsc)] = (vid, me)
                if (kind, vid) in by_vid:
                    odsc, owho, ocomp = by_vid[(kind, vid)]
                    if odsc != dsc:
                        differing = [c for c in ("script", "env", "tools", "args") if ocomp[0][c] != comp[0][c]]
                        pair = {"a": owho, "b": me, "differ": differing}
                        if "script" in differing:
                            pair["frags_a"], pair["frags_b"] = frags(ocomp[1]), frags(comp[1])
                            pair["finalizes"] = [fin_count(vmodels[owho[0]], owho[2], kind), fin_count(m, recipe, kind)]
                        cands.append((kind, owho, me, "different-execution-same-id:" + "+".join(differing),
                                 "%s step of %r and of %r share Variant-Id %s although they differ in %s (fragments %r vs %r; "
                                 "strong env %r vs %r)" % (kind, owho, me, vid, differing, frags(ocomp[1]), frags(comp[1]), ocomp[2], comp[2]),
                                 dict(case, pair=pair)))
                else:
                    by_vid[(kind, vid)] = (dsc, me, comp)
        # A listed known finding taints the two steps it was seen at; everything that consumes a tainted
        # step (argument or tool, transitively) inherits the disagreement and is excluded with it (counted).
        tainted = set()
        for kind, a, b, sig, detail, vcase in cands:
            if ctx.known(sig, vcase, detail):
                tainted.add((a[0], a[1], kind)); tainted.add((b[0], b[1], kind))
        changed = bool(tainted)
        while changed:
            changed = False
            for node, deps in depmap.items():
                if node not in tainted and any(d in tainted for d in deps):
                    tainted.add(node); changed = True
        for kind, a, b, sig, detail, vcase in cands:
            fid = ctx.known(sig, vcase, detail)
            if fid:
                ctx.excluded[fid] += 1
            elif (a[0], a[1], kind) in tainted or (b[0], b[1], kind) in tainted:
                ctx.excluded["propagated-from-known-finding"] += 1
            else:
                ctx.fail(sig, detail, vcase)
        # near-collisions: descriptors that differ in exactly one component
        comps = {}
        for (kind, dsc), (vid, who) in by_desc.items():
            comps.setdefault(kind, []).append(by_vid[(kind, vid)][2][0] if (kind, vid) in by_vid else None)
        near = 0
        for kind, lst in comps.items():
            lst = [c for c in lst if c]
            for i in range(len(lst)):
                for j in range(i + 1, min(len(lst), i + 40)):
                    if sum(1 for c in ("script", "env", "tools", "args") if lst[i][c] != lst[j][c]) == 1:
                        near += 1
        ctx.record(jhash(case), nontriv > 0 or near > 0, sorted(labels) + ["edit:" + e[0] for e in edits] +
                   (["equal-desc-other-stack"] if nontriv else []) + (["near-collision"] if near else []),
                   {"recipes": len(model["recipes"]), "variants": [v for v, _ in variants[1:-1]][:6], "steps": nsteps,
                    "equal_desc_pairs": nontriv, "near_collisions": near})
        ctx.extra["steps_compared"] = ctx.extra.get("steps_compared", 0) + nsteps
    finally:
        vlib.rmtree(base)

def case_st(quick):
    return st.fixed_dictionaries({"model": projgen.model_st(2, 6 if quick else 7, richness=1),
                                  "edits": st.lists(id_edit_st, min_size=3, max_size=6 if quick else 10),
                                  "twins": st.one_of(st.none(), projgen.twins_st, projgen.twins_st),
                                  "toolchains": st.sampled_from([None, None, 0, 1, 2, 3, 4, 5])})

def shard(ctx):
    run_hypothesis(ctx, case_st(ctx.quick()), lambda c: run_case(ctx, c), ctx.n(1600, 16000), shrink=False, minimize=("edits",))

def replay(ctx, case):
    run_case(ctx, case)

def _f_finalize(sig, case, detail):
    """Finalize fragments are executed in reverse but digested in forward order: with >=2 Finalize fragments in a
    step's inheritance chain the id follows the forward order while execution follows the reverse order"""
    p = case.get("pair") or {}
    if max(p.get("finalizes") or [0]) < 2:
        return False
    if sig.startswith("different-execution-same-id"):
        fa, fb = p.get("frags_a"), p.get("frags_b")
        return p.get("differ") == ["script"] and bool(fa) and sorted(fa) == sorted(fb) and fa != fb
    return sig == "same-execution-different-id"
FINDINGS = {"C02-finalize-order-not-in-digest": _f_finalize,
            # same root cause as C03-merged-package-keeps-first-visitors-subtree
            "C02-merged-package-subtree-inconsistent": lambda sig, case, detail="": sig == "step-id-inconsistent-with-own-inputs"}
