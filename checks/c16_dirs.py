"""C16 - Workspace directories separate variants; clean removes only garbage."""
import os, re, shutil
from hypothesis import strategies as st

import vlib
from vlib import bobproc, projgen, treecanon, scripts, pkgdump
from vlib.runner import run_hypothesis, Violation, jhash
from checks import c01_incremental as C1

PROP = "C16"
LEVEL = "exploration"
RULE = ("Generated projects (several variants per recipe through per-dependency environments, multiPackages, identical "
        "packages from different recipes) and histories of 2-5 edits; after every edit the same dev/build command runs, "
        "and generated `bob clean` invocations (--dry-run then real, dev or release, with/without -s, same -D as the "
        "builds) are interleaved. After every build: (1) two valid steps of one kind that share a workspace directory "
        "have the same Variant-Id (develop mode: and the same recipe); (2) a (recipe, kind, Variant-Id) that existed "
        "before and after the edit keeps its directory; at the end (3) every result equals the clean build of the "
        "final state elsewhere (a recycled directory that was not emptied shows foreign marker files). For every clean: "
        "(4) --dry-run changes nothing on disk and prints exactly what the real run then deletes; (5) the real run "
        "deletes every existing build/dist workspace that is not assigned to a step of the current graph, no source "
        "workspace without -s, and nothing that is assigned; the following build executes no step. Non-trivial: some "
        "variant disappeared and a new one of the same recipe appeared, and a clean deleted >=1 and kept >=1 "
        "directory; distinct = hash of the case.")
ASSUMPTIONS = ["clean is only judged after a successful build of the same state with the same -D",
               "Bob runs in the harness process; suspected violations are re-run with the real bob script"]
TIME_BUDGET = {"quick": 240, "thorough": 1700}
BATCH = 8

def step_dirs(run, root, model, mode):
    """{(stack, kind): dir} for existing workspaces of the current graph"""
    out = {}
    for kind in ("src", "build", "dist"):
        argv = ["query-path", "-q", "-f", "{name}\t{%s}" % kind, "--develop" if mode == "dev" else "--release"] + \
               projgen.defines_argv(model) + ["//*"]
        r = run(root, argv, env_extra=C1.env_for(root))
        if r.rc != 0:
            return None
        for line in r.out.splitlines():
            if "\t" in line:
                name, d = line.split("\t", 1)
                out[(name, kind)] = d
    return out

def step_ids(root, model):
    """{(stack, kind): (vid, recipe)} through an in-process parse"""
    from bob.errors import BobError
    with pkgdump.in_dir(root):
        try:
            rs, ps = pkgdump.load(root, model.get("defines"))
            r = ps.getRootPackage()
        except BobError:
            return None
        out = {}
        for stack, pkg, via in pkgdump.walk(r, 1500):
            if not stack:
                continue
            for s in (pkg.getCheckoutStep(), pkg.getBuildStep(), pkg.getPackageStep()):
                if s.isValid():
                    out[("/".join(stack), s.getLabel())] = (s.getVariantId().hex(), pkg.getRecipe().getName())
        ps.close()
        return out

def existing_workspaces(root, mode):
    """all step workspaces on disk -> kind"""
    out = {}
    top = os.path.join(root, "dev" if mode == "dev" else "work")
    for dp, dn, fn in os.walk(top):
        if os.path.basename(dp) == "workspace":
            rel = os.path.relpath(dp, root)
            parts = rel.split(os.sep)
            kind = parts[1] if mode == "dev" else next((p for p in reversed(parts) if p in ("src", "build", "dist")), "?")
            out[rel] = kind
            dn[:] = []
    return out

def run_case(ctx, case, confirm=False):
    run = bobproc.script if confirm else bobproc.direct
    model, mode = case["model"], case["mode"]
    if case.get("variants"):
        model = projgen.add_variants(model, case["variants"])
    if case.get("clones"):
        model = projgen.add_clones(model, case["clones"])
    base = ctx.tmpdir()
    W = os.path.join(base, "w"); X = os.path.join(base, "other", "x")
    os.makedirs(W); os.makedirs(X)
    try:
        states = [(model, "initial")] + projgen.apply_history(model, case["edits"])
        prev_map = None
        labels = set(["mode:" + mode])
        churn = False
        cleaned_some = False
        last_ok = None
        for n, (m, desc) in enumerate(states):
            projgen.render(m, W)
            C1.reset_events(W)
            r = run(W, C1.build_argv(m, mode, None), env_extra=C1.env_for(W))
            if r.rc != 0:
                labels.add("state-rejected")
                prev_map = None
                last_ok = None
                continue
            last_ok = m
            dirs = step_dirs(run, W, m, mode)
            ids = step_ids(W, m)
            if dirs is None or ids is None:
                prev_map = None
                continue
            where = "state %d (%s)" % (n, desc)
            # (1) a directory holds one variant only
            by_dir = {}
            for key, d in dirs.items():
                if key in ids:
                    by_dir.setdefault((key[1], d), set()).add(ids[key] if mode == "dev" else (ids[key][0], None))
            for (kind, d), vs in by_dir.items():
                if len(vs) > 1:
                    ctx.fail("directory-shared-by-variants", "%s: %s directory %s is used by %r" % (where, kind, d, sorted(vs)), case)
            # (2) surviving variants keep their directory
            cur_map = {}
            for key, d in dirs.items():
                if key in ids:
                    cur_map.setdefault((ids[key][1], key[1], ids[key][0]), set()).add(d)
            if prev_map is not None:
                for k, ds in cur_map.items():
                    if k in prev_map and not (ds & prev_map[k]):
                        ctx.fail("variant-moved-directory", "%s: %s step of recipe %s, variant %s moved from %r to %r" %
                                 (where, k[1], k[0], k[2][:8], sorted(prev_map[k]), sorted(ds)), case)
                gone = {(k[0], k[1]) for k in prev_map if k not in cur_map}
                new = {(k[0], k[1]) for k in cur_map if k not in prev_map}
                if gone & new:
                    churn = True
            prev_map = cur_map
            # clean?
            cl = case["cleans"].get(str(n))
            if cl is not None:
                cmode, src = cl
                cflag = "--develop" if cmode == "dev" else "--release"
                argv = ["clean", cflag] + (["-s"] if src else []) + projgen.defines_argv(m)
                before = existing_workspaces(W, cmode)
                assigned = set(dirs.values()) if cmode == mode else set()
                snap = treecanon.digest(treecanon.canon(os.path.join(W, "dev" if cmode == "dev" else "work"))) \
                    if os.path.isdir(os.path.join(W, "dev" if cmode == "dev" else "work")) else None
                r1 = run(W, argv + ["--dry-run"], env_extra=C1.env_for(W))
                snap2 = treecanon.digest(treecanon.canon(os.path.join(W, "dev" if cmode == "dev" else "work"))) \
                    if snap is not None else None
                if snap != snap2:
                    ctx.fail("dry-run-changed-disk", "%s: `bob %s --dry-run` changed the workspace tree" % (where, " ".join(argv)), case)
                printed = {l[3:].strip() for l in r1.out.splitlines() if l.startswith("rm ")}
                r2 = run(W, argv + ["-v"], env_extra=C1.env_for(W))
                after = existing_workspaces(W, cmode)
                deleted = set(before) - set(after)
                labels.add("clean:%s%s" % (cmode, "-s" if src else ""))
                if r1.rc != 0 or r2.rc != 0:
                    ctx.fail("clean-failed", "%s: bob clean failed: %s %s" % (where, r1.err[-200:], r2.err[-200:]), case)
                if cmode == mode:
                    if printed != deleted:
                        ctx.fail("dry-run-differs-from-real-clean", "%s: --dry-run printed %r, the real run deleted %r" %
                                 (where, sorted(printed), sorted(deleted)), case)
                    lost = deleted & assigned
                    if lost:
                        ctx.fail("clean-deleted-used-directory", "%s: `bob %s` deleted %r which belong to packages of the current "
                                 "recipes" % (where, " ".join(argv), sorted(lost)), case)
                    if not src and any(before[d] == "src" for d in deleted):
                        ctx.fail("clean-deleted-source-without-s", "%s: source workspaces %r deleted without -s" %
                                 (where, sorted(d for d in deleted if before[d] == "src")), case)
                    garbage = {d for d, k in before.items() if k in ("build", "dist") and d not in assigned}
                    left = garbage - deleted
                    if left:
                        ctx.fail("clean-left-garbage", "%s: `bob %s` kept %r although no package of the current recipes uses them" %
                                 (where, " ".join(argv), sorted(left)), case)
                    if deleted and (set(after) & assigned):
                        cleaned_some = True
                    # nothing has to be rebuilt afterwards
                    C1.reset_events(W)
                    r3 = run(W, C1.build_argv(m, mode, None), env_extra=C1.env_for(W))
                    st3 = [k for k in C1.starts(W) if C1.kind_of(k) in ("build", "dist")]
                    if r3.rc != 0 or st3:
                        ctx.fail("rebuild-after-clean", "%s: after `bob %s` the next build executed %r (rc %d)" %
                                 (where, " ".join(argv), st3, r3.rc), case)
        # (3) final contents equal a clean build
        if last_ok is not None and last_ok is states[-1][0]:
            final = last_ok
            projgen.render(final, X)
            rc = run(X, C1.build_argv(final, mode, None), env_extra=C1.env_for(X))
            if rc.rc == 0:
                dw, _ = C1.dist_map(run, W, final, mode)
                dx, _ = C1.dist_map(run, X, final, mode)
                for name, dpath in sorted((dx or {}).items()):
                    if dw is None or name not in dw:
                        ctx.fail("result-missing", "package %s has no result in the long-lived workspace" % name, case)
                    cw, cx = treecanon.canon(os.path.join(W, dw[name])), treecanon.canon(os.path.join(X, dpath))
                    if cw != cx:
                        ctx.fail("directory-content-foreign", "package %s in %s differs from the clean build: %r" %
                                 (name, dw[name], treecanon.diff(cw, cx, 4)), case)
        ctx.record(jhash(case), churn and cleaned_some, sorted(labels) + (["variant-churn"] if churn else []) +
                   (["clean-deleted-and-kept"] if cleaned_some else []),
                   {"edits": [d for _, d in states[1:]], "mode": mode, "cleans": case["cleans"]})
    finally:
        vlib.rmtree(base)

CHURN = ["dep_remove", "dep_remove", "dep_add", "var_value", "var_value", "define", "default_env", "frag", "revert",
         "dep_param", "varlist", "provide_var", "tool_use", "class_frag", "variant", "variant", "variant"]
I = st.integers(0, 30)
churn_edit = st.tuples(st.sampled_from(CHURN), I, I, I, I).map(list)

def case_st(quick):
    return st.fixed_dictionaries({
        "model": projgen.model_st(3, 6, richness=1, dense=True),
        "edits": st.lists(churn_edit, min_size=2, max_size=4 if quick else 6),
        "mode": st.sampled_from(["dev", "dev", "build"]),
        "variants": st.sampled_from([None, None, 3, 4]),
        "clones": st.sampled_from([None, None, 2, 3]),
        "cleans": st.dictionaries(st.sampled_from(["1", "2", "3", "4"]),
                                  st.tuples(st.sampled_from(["dev", "build"]), st.booleans()).map(list), min_size=1, max_size=2),
    }).map(lambda c: dict(c, cleans={k: [c["mode"] if i == 0 else v[0], v[1]] for i, (k, v) in enumerate(sorted(c["cleans"].items()))}))

def check(ctx, case):
    try:
        run_case(ctx, case)
    except Violation as v:
        try:
            run_case(ctx, case, confirm=True)
        except Violation as w:
            raise w
        ctx.label("unconfirmed-in-fresh-process:" + v.signature)

def shard(ctx):
    bobproc.warm()
    run_hypothesis(ctx, case_st(ctx.quick()), lambda c: check(ctx, c), ctx.n(640, 6000), shrink=False, minimize=("edits",))

def replay(ctx, case):
    run_case(ctx, case, confirm=True)

def _f_sibling_dir(sig, case, detail=""):
    """the moved step is shared by sibling packages of one multiPackage recipe: old and new directory are named after
    different siblings (dev/build/r5-a/1 -> dev/build/r5-b/1)"""
    if sig != "variant-moved-directory":
        return False
    m = re.search(r"step of recipe (\S+), variant \w+ moved from (\[.*?\]) to (\[.*?\])", detail)
    if not m:
        return False
    recipe = m.group(1)
    def pk(lst):
        return {d.split("/")[2] for d in re.findall(r"'([^']+)'", lst)}
    old, new = pk(m.group(2)), pk(m.group(3))
    return bool(old) and bool(new) and not (old & new) and all(n.startswith(recipe + "-") for n in old | new)

FINDINGS = {"C16-shared-step-of-multipackage-siblings-moves": _f_sibling_dir}
