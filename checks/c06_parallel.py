"""C06 - Parallel builds are schedule independent and bounded.

Two layers.
L2 (semaphore): bob.builder.JobServerSemaphore on a real pipe with n tokens, driven by k asyncio tasks whose
   generated scripts (yield counts) are the schedule; both modes (internal job server / recursive = started below make).
L1 (builds): generated DAG projects built with -j N (internal job server) or below an emulated make job server
   (MAKEFLAGS + FIFO owned by the harness), generated per-step durations, optional failing step, -k on/off; the oracle
   reads the linearised start/end event log of the step scripts.
"""
import os, asyncio, fcntl, termios, struct, zlib, shutil
from hypothesis import strategies as st

import vlib
from vlib import bobproc, projgen, treecanon, scripts, pkgdump
from vlib.runner import run_hypothesis, Violation, jhash
from checks import c01_incremental as C1
from checks import c16_dirs as C16

PROP = "C06"
LEVEL = "exploration"
RULE = ("L2: JobServerSemaphore over a real pipe holding n in 1..4 tokens (recursive mode: n in 0..3 plus the implicit "
        "slot), 2-7 tasks with generated scripts of holds; inside a hold a task yields, or releases / yields or awaits "
        "a child task / re-acquires (the builder's yield-job-while-waiting pattern); yield counts are the schedule. "
        "After every step: holders <= limit and holders + bytes in the pipe <= limit (a token is never duplicated); no "
        "exception; all tasks finish (a task still blocked after 20 s although every step takes microseconds is a lost "
        "wake-up, re-run once before it is reported); at the end the pipe holds exactly n tokens. A further client of the "
        "same job server (make, a sub-make) takes tokens from the pipe and returns them after generated delays (the "
        "reader-callback path). Non-trivial: some task had to wait and was served by a hand-over or by a returned token. "
        "L1: generated dense project (shared packages, tools) + 0-2 edits, built sequentially at X and from scratch at W "
        "with -j N (N in 2..8) or below an emulated make job server (FIFO with N-1 tokens), generated per-step "
        "durations (0-80 ms), optionally one failing step and -k. Event log oracle: (1) a step starts only after the "
        "successful end of every dependency step (arguments, tools, previous step of the package) that the "
        "sequential build executed; (2) no workspace is started twice; (3) never more than N steps are open; (4) with "
        "a failing step the exit status is non-zero, no transitive dependent starts, in early-failure plans without -k (every other step sleeps 150 ms) at most 2(N-1) steps start "
        "after the failure and none after one of those has finished, and with -k (failing build or package step) every other step of the sequential build completes; without failure exactly the steps of the sequential build run; (5) every "
        "package result equals the sequential build; (6) in builds that are not aborted (success, or failure under "
        "-k) all N (N-1) tokens are back in the FIFO at shutdown. Non-trivial: >=2 steps were open at the same time "
        "and some step is a dependency of >=2 other executed steps; distinct = hash of the case.")
ASSUMPTIONS = ["the asyncio event loop is single threaded: the generated yield counts determine the L2 schedule",
               "L1 schedules come from generated sleep durations inside the step scripts; the oracle only uses the order "
               "of the event log, never time stamps",
               "Bob runs in the harness process; suspected violations are re-run in a fresh process"]
TIME_BUDGET = {"quick": 220, "thorough": 1700}
BATCH = 4

# ---------------------------------------------------------------------------------------------------------------
# L2

def _pipe_bytes(fd):
    return struct.unpack("i", fcntl.ioctl(fd, termios.FIONREAD, b"\0\0\0\0"))[0]

class SemFail(Exception):
    def __init__(self, sig, detail):
        self.sig, self.detail = sig, detail

def run_sem_once(case, timeout=20):
    """-> (stats dict); raises SemFail"""
    from bob.builder import JobServerSemaphore
    n, rec = case["n"], case["recursive"]
    limit = n + (1 if rec else 0)
    r, w = os.pipe()
    os.set_blocking(r, False)
    if n:
        os.write(w, b"+" * n)
    loop = asyncio.new_event_loop()
    asyncio.set_event_loop(loop)
    st_ = {"holders": 0, "waiting": 0, "waited": 0, "handover": 0, "max": 0, "trace": [], "ext": 0, "woken_by_pipe": 0}
    err = []
    def check(where):
        pb = _pipe_bytes(r)
        if st_["waiting"]:
            st_["waited"] += 1
        st_["max"] = max(st_["max"], st_["holders"])
        if st_["holders"] > limit:
            raise SemFail("limit-exceeded", "%s: %d holders, limit %d (tokens %d%s)" %
                          (where, st_["holders"], limit, n, " + implicit slot" if rec else ""))
        if st_["holders"] + st_["ext"] + pb > limit:
            raise SemFail("token-duplicated", "%s: %d holders, %d tokens held by the other job server client and %d tokens in "
                          "the pipe, limit %d" % (where, st_["holders"], st_["ext"], pb, limit))
    try:
        sem = JobServerSemaphore((r, w), rec)
        async def acquire(name):
            st_["waiting"] += 1
            try:
                await sem.acquire()
            finally:
                st_["waiting"] -= 1
            st_["holders"] += 1
            st_["trace"].append("%s acquire" % name)
            check("%s after acquire" % name)
        def release(name):
            st_["holders"] -= 1
            if st_["waiting"]:
                st_["handover"] += 1
            st_["trace"].append("%s release" % name)
            sem.release()
            check("%s after release" % name)
        async def yields(m):
            for _ in range(m):
                await asyncio.sleep(0)
        async def task(name, holds, depth=0):
            for hi, h in enumerate(holds):
                await yields(h["pre"])
                await acquire(name)
                for op in h["inner"]:
                    if op[0] == "y":
                        await yields(op[1])
                    elif op[0] == "away":
                        release(name)
                        await yields(op[1])
                        await acquire(name)
                    elif op[0] == "child" and depth < 2:
                        release(name)
                        kids = [asyncio.ensure_future(task("%s.%d" % (name, ci), ch, depth + 1)) for ci, ch in enumerate(op[1])]
                        try:
                            await asyncio.gather(*kids)
                        finally:
                            for k in kids:
                                k.cancel()
                        await acquire(name)
                release(name)
        async def other_client(script):
            # another client of the same job server (make, a sub-make): takes tokens straight from the pipe and gives them back
            for pre, hold in script:
                await yields(pre)
                try:
                    tok = os.read(r, 1)
                except BlockingIOError:
                    continue
                st_["ext"] += 1
                st_["trace"].append("other client takes a token")
                await yields(hold)
                st_["ext"] -= 1
                if st_["waiting"]:
                    st_["woken_by_pipe"] += 1
                os.write(w, tok)
                st_["trace"].append("other client returns a token")
        async def main():
            ts = [asyncio.ensure_future(task("T%d" % i, holds)) for i, holds in enumerate(case["tasks"])]
            if case.get("other"):
                ts.append(asyncio.ensure_future(other_client(case["other"])))
            done, pending = await asyncio.wait(ts, timeout=timeout, return_when=asyncio.FIRST_EXCEPTION)
            for t in done:
                if t.exception() is not None:
                    for p in pending: p.cancel()
                    raise t.exception()
            if pending:
                pb = _pipe_bytes(r)
                for p in pending: p.cancel()
                raise SemFail("lost-wakeup", "%d tasks never finished; %d holders, %d waiting, %d tokens in the pipe" %
                              (len(pending), st_["holders"], st_["waiting"], pb))
        try:
            loop.run_until_complete(main())
        except SemFail:
            raise
        except (IndexError, ValueError, OSError, RuntimeError, AssertionError) as e:
            raise SemFail("semaphore-raised", "%s: %s (after %s)" % (type(e).__name__, e, st_["trace"][-6:]))
        pb = _pipe_bytes(r)
        if pb != n:
            raise SemFail("token-lost" if pb < n else "token-duplicated",
                          "all tasks finished; the pipe holds %d tokens, %d were there at the start (recursive=%s); trace: %s" %
                          (pb, n, rec, " / ".join(st_["trace"][-12:])))
        return st_
    finally:
        try:
            loop.run_until_complete(loop.shutdown_asyncgens())
        except Exception:
            pass
        try:
            loop.remove_reader(r)
        except Exception:
            pass
        loop.close()
        asyncio.set_event_loop(None)
        os.close(r); os.close(w)

def check_sem(ctx, case):
    try:
        s = run_sem_once(case)
    except SemFail as e:
        if e.sig == "lost-wakeup":
            try:
                run_sem_once(case, timeout=40)
                ctx.label("unconfirmed:lost-wakeup")
                return
            except SemFail as e2:
                e = e2
        ctx.record(jhash(case), False, ["L2", "L2:violating"], None)
        ctx.fail("sem-" + e.sig, "JobServerSemaphore(recursive=%s), %d tokens, %d tasks: %s" %
                 (case["recursive"], case["n"], len(case["tasks"]), e.detail), case)
        return
    nt = s["waited"] > 0 and (s["handover"] > 0 or s["woken_by_pipe"] > 0)
    ctx.record(jhash(case), nt, ["L2", "L2:recursive" if case["recursive"] else "L2:internal"] +
               (["L2:waited"] if s["waited"] else []) + (["L2:handover"] if s["handover"] else []) +
               (["L2:token-returned-by-other-client-while-waiting"] if s["woken_by_pipe"] else []),
               {"layer": "L2", "n": case["n"], "recursive": case["recursive"], "tasks": len(case["tasks"]),
                "max_holders": s["max"], "handovers": s["handover"]})

def _decode(code):
    """byte string -> task scripts (cheap to generate and to shrink: Hypothesis only sees a list of small integers)"""
    it = iter(code)
    nxt = lambda: next(it, 0)
    def holds(depth):
        out = []
        for _ in range(1 + nxt() % (3 if depth == 0 else 2)):
            inner = []
            pre = nxt() % 4
            for _ in range(nxt() % 4):
                k = nxt() % 4
                if k == 3 and depth < 2:
                    inner.append(["child", [holds(depth + 1) for _ in range(1 + nxt() % 2)]])
                elif k >= 2:
                    inner.append(["away", nxt() % 4])
                else:
                    inner.append(["y", nxt() % 4])
            out.append({"pre": pre, "inner": inner})
        return out
    return [holds(0) for _ in range(2 + nxt() % 6)]

sem_case_st = st.tuples(st.booleans(), st.integers(0, 4), st.lists(st.integers(0, 63), min_size=30, max_size=90),
                        st.lists(st.tuples(st.integers(0, 4), st.integers(0, 6)).map(list), max_size=4)).map(
    lambda t: {"layer": "L2", "recursive": t[0], "n": (min(t[1], 3) if t[0] else max(1, t[1])), "tasks": _decode(t[2]),
               "other": t[3]})

# ---------------------------------------------------------------------------------------------------------------
# L1

def token_patch(path):
    """count the tokens that are in the FIFO of the internal job server when it is shut down"""
    saved = []
    def install():
        import bob.builder as B
        orig = B.InternalJobServer.shutdown
        saved.append(orig)
        def shutdown(self):
            rfd, wfd = self.getMakeFd()
            n = 0
            try:
                while True:
                    b = os.read(rfd, 4096)
                    if not b:
                        break
                    n += len(b)
            except BlockingIOError:
                pass
            with open(path, "a") as f:
                f.write("%d\n" % n)
            orig(self)
        B.InternalJobServer.shutdown = shutdown
    def uninstall():
        import bob.builder as B
        if saved:
            B.InternalJobServer.shutdown = saved.pop()
    return install, uninstall

def step_graph(root, model):
    """{(package stack, label): [(package stack, label) of direct dependency steps]}, {(stack, label): identity};
    identical steps reached on several stacks share one workspace: identity = (package name, label, Variant-Id)"""
    out = {}; ident = {}
    with pkgdump.in_dir(root):
        rs, ps = pkgdump.load(root, model.get("defines"))
        r = ps.getRootPackage()
        for stack, pkg, via in pkgdump.walk(r, 2500):
            if not stack:
                continue
            prev = None
            for s in (pkg.getCheckoutStep(), pkg.getBuildStep(), pkg.getPackageStep()):
                if not s.isValid():
                    continue
                deps = []
                for a in s.getArguments():
                    if a.isValid():
                        deps.append(("/".join(a.getPackage().getStack()), a.getLabel()))
                for t in s.getTools().values():
                    deps.append(("/".join(t.getStep().getPackage().getStack()), t.getStep().getLabel()))
                if s.getSandbox() is not None:
                    deps.append(("/".join(s.getSandbox().getStep().getPackage().getStack()), s.getSandbox().getStep().getLabel()))
                out[("/".join(stack), s.getLabel())] = deps
                ident[("/".join(stack), s.getLabel())] = (pkg.getName(), s.getLabel(), s.getVariantId())
        ps.close()
    return out, ident

def key_of(d):
    return d.replace("/", "_")

def widen(model):
    """let the root recipe depend on every other package directly: independent sub-trees can then be built in parallel and
    packages are reached on several paths"""
    import copy
    m = copy.deepcopy(model)
    root = m["recipes"][0]
    bodies = [root["body"]] + list((root.get("multi") or {}).values())
    for b in bodies[:1]:
        have = {d["name"] for d in b.get("depends", [])}
        for name in projgen._later_pkgs(m, 0):
            if name not in have:
                b.setdefault("depends", []).append({"name": name, "use": ["result"]})
    return m

def run_build_case(ctx, case, confirm=False):
    run = bobproc.script if confirm else bobproc.direct
    base = ctx.tmpdir()
    W = os.path.join(base, "w"); X = os.path.join(base, "seq", "x")
    os.makedirs(W); os.makedirs(X)
    fifo_fds = None
    try:
        hist = projgen.apply_history(case["model"], case["edits"])
        model = hist[-1][0] if hist else case["model"]
        if case.get("widen"):
            model = widen(model)
        N = case["jobs"]
        # sequential reference
        projgen.render(model, X)
        C1.reset_events(X)
        rx = run(X, C1.build_argv(model, "dev", None), env_extra=C1.env_for(X))
        if rx.rc != 0:
            ctx.label("state-rejected")
            return
        ref_starts = C1.starts(X)
        dirs = C16.step_dirs(run, X, model, "dev")
        graph, ident = step_graph(X, model)
        if not dirs:
            ctx.label("state-rejected")
            return
        # dependency relation between workspaces (query-path names one stack per package only)
        ident_dir = {ident[n]: d for n, d in dirs.items() if n in ident}
        ndir = lambda n: ident_dir.get(ident.get(n))
        deps = {}
        for node, ds in graph.items():
            if ndir(node) is None:
                continue
            k = key_of(ndir(node))
            for d in ds:
                if ndir(d) is not None:
                    deps.setdefault(k, set()).add(key_of(ndir(d)))
                else:
                    ctx.label("L1:dependency-without-directory")
            deps.setdefault(k, set())
        executed = set(ref_starts)
        def closure(k, seen=None):
            seen = set() if seen is None else seen
            for d in deps.get(k, ()):
                if d not in seen:
                    seen.add(d); closure(d, seen)
            return seen
        # the parallel build
        projgen.render(model, W)
        sw = os.path.join(W, "switches")
        for d in ("fail", "kill", "dur"):
            os.makedirs(os.path.join(sw, d), exist_ok=True)
        os.mkfifo(os.path.join(sw, "sleep.fifo"))
        for k in ref_starts:
            ms = case["durs"][zlib.crc32(k.encode()) % len(case["durs"])] * 10
            if ms:
                with open(os.path.join(sw, "dur", k), "w") as f:
                    f.write("0.%03d\n" % ms)
        fail_key = None
        early = False
        if case["fail"] is not None and ref_starts:
            fail_key = ref_starts[case["fail"] % len(ref_starts)]
            # every other plan lets a step fail that several others wait for (reached on more than one path)
            wanted = [k for k in ref_starts if sum(1 for p in deps if k in deps[p]) >= 2]
            if wanted and case["fail"] % 2:
                fail_key = wanted[(case["fail"] // 2) % len(wanted)]
            elif not case["keep"] and case["fail"] % 4 in (0, 2):
                # an early failure, while most of the other steps are still queued for a job slot; all others take 150 ms
                fail_key = ref_starts[(case["fail"] // 4) % min(3, len(ref_starts))]
                early = True
                for k in ref_starts:
                    with open(os.path.join(sw, "dur", k), "w") as f:
                        f.write("0.150\n")
                os.unlink(os.path.join(sw, "dur", fail_key))
            if case["fail"] % 2 and os.path.exists(os.path.join(sw, "dur", fail_key)):
                os.unlink(os.path.join(sw, "dur", fail_key))      # fails at once: later requests find it already failed
            open(os.path.join(sw, "fail", fail_key), "w").close()
        env = C1.env_for(W)
        argv = C1.build_argv(model, "dev", None) + (["-k"] if case["keep"] else [])
        toklog = os.path.join(base, "tokens.log")
        C1.reset_events(W)
        if case["ext"]:
            fifo = os.path.join(base, "make.fifo")
            os.mkfifo(fifo)
            fifo_fds = (os.open(fifo, os.O_RDONLY | os.O_NONBLOCK), os.open(fifo, os.O_WRONLY))
            if N > 1:
                os.write(fifo_fds[1], b"+" * (N - 1))
            env["MAKEFLAGS"] = "-j%d --jobserver-auth=fifo:%s" % (N, fifo)
            rw = run(W, argv, env_extra=env)
            left = 0
            try:
                while True:
                    b = os.read(fifo_fds[0], 4096)
                    if not b: break
                    left += len(b)
            except BlockingIOError:
                pass
            tokens_back, tokens_expected = left, N - 1
        else:
            argv = argv + ["-j", str(N)]
            install, uninstall = token_patch(toklog)
            if confirm:
                rw = bobproc.inproc(W, argv, env_extra=env, patch=install)
            else:
                install()
                try:
                    rw = run(W, argv, env_extra=env)
                finally:
                    uninstall()
            try:
                with open(toklog) as f:
                    tokens_back = int(f.read().split()[-1])
            except (OSError, IndexError, ValueError):
                tokens_back = None
            tokens_expected = N
        ev = scripts.parse_events(os.path.join(W, "events.log"))
        what = "-j %d%s%s%s" % (N, " (below make)" if case["ext"] else "", " -k" if case["keep"] else "",
                                 ", failing step %s" % fail_key if fail_key else "")
        # --- event log oracle
        open_ = set(); ended_ok = set(); started = []
        max_open = 0
        for e in ev:
            if e[0] == "start":
                k = e[1]
                if k in started:
                    ctx.fail("workspace-executed-twice", "%s: %s was started twice in one invocation%s" %
                             (what, k, " while still running" if k in open_ else ""), case)
                for d in deps.get(k, ()):
                    if d in executed and d not in ended_ok:
                        ctx.fail("started-before-dependency-finished", "%s: %s started although its dependency %s had not "
                                 "finished successfully (events so far: %r)" % (what, k, d, [x[:2] for x in ev[:ev.index(e)]][-8:]), case)
                started.append(k); open_.add(k)
                max_open = max(max_open, len(open_))
                if len(open_) > N:
                    ctx.fail("job-limit-exceeded", "%s: %d steps running at the same time: %r" % (what, len(open_), sorted(open_)), case)
            elif e[0] == "end":
                open_.discard(e[1])
                if e[2] == "0":
                    ended_ok.add(e[1])
        shared_dep = any(sum(1 for k in started if d in deps.get(k, ())) >= 2 for d in started)
        labels = ["L1", "L1:jobs:%d" % N, "L1:ext" if case["ext"] else "L1:internal"] + (["L1:keep-going"] if case["keep"] else []) + \
                 (["L1:failing-step"] if fail_key else []) + (["L1:overlap"] if max_open >= 2 else []) + (["L1:shared-dep"] if shared_dep else [])
        ctx.record(jhash(case), max_open >= 2 and shared_dep, labels,
                   {"layer": "L1", "jobs": N, "ext": case["ext"], "keep": case["keep"], "fail": fail_key, "steps": len(ref_starts),
                    "max_open": max_open, "edits": [d for _, d in hist]})
        aborted = False
        if fail_key:
            if fail_key not in started:
                ctx.label("L1:fault-not-reached")
            if rw.rc == 0:
                ctx.fail("failure-not-reported", "%s: exit status 0 although step %s failed" % (what, fail_key), case)
            bad = [k for k in started if fail_key in closure(k)]
            if bad:
                ctx.fail("dependent-of-failed-step-started", "%s: %r depend on the failed step but were started" % (what, bad), case)
            if case["keep"] and C1.kind_of(fail_key) not in ("build", "dist"):
                # Build-Ids are calculated before anything is built and need every checkout of the sub-graph: a failing
                # checkout legitimately ends the packages above it before their other dependencies are requested
                ctx.label("L1:keep-going-checkout-failure")
            elif case["keep"]:
                must = [k for k in ref_starts if k != fail_key and fail_key not in closure(k)]
                missing = [k for k in must if k not in ended_ok]
                if missing:
                    ctx.fail("keep-going-skipped-independent-step", "%s: %r do not depend on the failed step but were not built; "
                             "stderr: %s" % (what, missing, rw.err[-300:]), case)
            else:
                aborted = True
                # without -k the failure stops the build: steps that are running finish, nothing new is started - once Bob
                # has seen the failed script exit.  Until then (the window) jobs that hold or get a slot still start steps;
                # how long the window is depends on the load.  The rule is therefore only applied to "early failure" plans in
                # which every other step sleeps 150 ms: a step that starts inside the window cannot end inside it, so at most
                # N-1 slot holders plus the N-1 steps that were running can hand a slot to a late starter, and nothing may
                # start after a late starter has finished.
                pos = next((i for i, e in enumerate(ev) if e[0] == "end" and e[1] == fail_key and e[2] != "0"), None)
                if pos is not None and early:
                    late = [e[1] for e in ev[pos + 1:] if e[0] == "start"]
                    if len(late) > 2 * (N - 1):
                        ctx.fail("failure-did-not-stop-build", "%s: %d steps were started after the failure: %r" % (what, len(late), late), case)
                    ctx.label("L1:starts-after-failure:%d" % min(len(late), 3))
                    late_set, ended_late = set(), False
                    for e in ev[pos + 1:]:
                        if e[0] == "start":
                            if ended_late:
                                ctx.fail("failure-did-not-stop-build", "%s: %s was started after the failure and even after a step "
                                         "that itself started after the failure had finished (steps started after the failure: %r)" %
                                         (what, e[1], late), case)
                            late_set.add(e[1])
                        elif e[0] == "end" and e[1] in late_set:
                            ended_late = True
        else:
            if rw.rc != 0:
                ctx.fail("parallel-build-fails", "%s: the sequential build succeeds, the parallel one fails: %s" % (what, rw.err[-500:]), case)
            if set(started) != executed:
                ctx.fail("different-steps-executed", "%s: executed %r, the sequential build %r" %
                         (what, sorted(set(started) - executed), sorted(executed - set(started))), case)
            dx, _ = C1.dist_map(run, X, model, "dev")
            dw, _ = C1.dist_map(run, W, model, "dev")
            for name, dpath in sorted((dx or {}).items()):
                if dw is None or name not in dw:
                    ctx.fail("result-missing", "%s: package %s has no result" % (what, name), case)
                cw, cx = treecanon.canon(os.path.join(W, dw[name])), treecanon.canon(os.path.join(X, dpath))
                if cw != cx:
                    ctx.fail("result-differs-from-sequential", "%s: package %s: %r" % (what, name, treecanon.diff(cx, cw, 3)), case)
        if not aborted and N > 1:
            if tokens_back is None:
                ctx.label("L1:no-token-count")
            elif tokens_back != tokens_expected:
                ctx.fail("tokens-not-returned" if tokens_back < tokens_expected else "tokens-duplicated",
                         "%s: %d tokens in the job server FIFO at shutdown, expected %d" % (what, tokens_back, tokens_expected), case)
    finally:
        if fifo_fds:
            os.close(fifo_fds[0]); os.close(fifo_fds[1])
        vlib.rmtree(base)

I = st.integers(0, 400)
def build_case_st(quick):
    return st.fixed_dictionaries({
        "layer": st.just("L1"),
        "model": projgen.model_st(4, 8 if quick else 10, richness=1, dense=True),
        "edits": st.lists(projgen.edit_st, max_size=2),
        "jobs": st.sampled_from([4, 3, 2, 8, 2, 3]),
        "durs": st.lists(st.sampled_from([0, 2, 3, 4, 5, 6, 8]), min_size=1, max_size=6),
        "fail": st.one_of(st.none(), st.none(), I),
        "keep": st.booleans(),
        "ext": st.sampled_from([False, False, True]),
        "widen": st.sampled_from([True, True, True, False]),
    })

def check_build(ctx, case):
    try:
        run_build_case(ctx, case)
    except Violation as v:
        try:
            run_build_case(ctx, case, confirm=True)
        except Violation as w:
            raise w
        ctx.label("unconfirmed-in-fresh-process:" + v.signature)

def shard(ctx):
    bobproc.warm()
    ctx.mod.BATCH = 1500
    try:
        _shard(ctx)
    finally:
        ctx.mod.BATCH = 4

def _shard(ctx):
    layers = os.environ.get("C06_LAYERS", "L2,L1").split(",")      # debugging aid
    if "L2" in layers:
        run_hypothesis(ctx, sem_case_st, lambda c: check_sem(ctx, c), ctx.n(16000, 400000), shrink=True, salt="sem")
    ctx.mod.BATCH = 4
    if "L1" in layers:
        run_hypothesis(ctx, build_case_st(ctx.quick()), lambda c: check_build(ctx, c), ctx.n(640, 5000), shrink=False,
                       salt="build", minimize=("edits",))

def replay(ctx, case):
    if case.get("layer") == "L2":
        check_sem(ctx, case)
    else:
        run_build_case(ctx, case, confirm=True)

FINDINGS = {}
