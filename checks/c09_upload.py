"""C09 - Archive uploads are atomic and never overwrite.

Layers
------
single (fault enumeration, in-process, no fork)
    The file-system operations of ONE upload are traced by replacing, in the name space of the module
    bob.archive, `os` (mkdir/makedirs/chmod/link/replace/rename/unlink/rmdir + the read-only probes
    os.path.isfile/isdir/exists), `NamedTemporaryFile`, `open` (for writing) and `shutil` (copy*/move).  The temporary
    file object is wrapped and opened UNBUFFERED so that every write() of the gzip stream is one operation
    that really reaches the file system, and close() is one.  os.makedirs is decomposed into its mkdir()s.
    Three upload paths are enumerated:
      package  LocalArchive._uploadPackage(buildId, ".tgz", audit, content)         (link()+unlink() publish)
      meta     LocalArchive._uploadLocalFile(key, ".buildid"|".fprnt", bytes)       (overwrite=True, os.replace)
      mirror   LocalArchive._downloadPackage(..., caches=[B], ws) from archive A    (Tee/MirrorWriter into cache B),
               with a generated damage of A's artifact (truncation, bit flip, workspace that cannot be created)
               as "injected extraction failure"
    After a reference run, for EVERY mutating operation index k of the recorded trace:
      kill before k / kill after k / kill in the middle of write k (half of the data written),
      I/O error (EIO|ENOSPC|EACCES, generated; optionally sticky for all later writes) raised instead of k,
    and for every operation index j (probes included) "a competing uploader publishes payload X under the same
    name just before j" - alone, and combined with a generated choice of later kill/error points.  That is the
    deterministic form of the lost race: the competitor appears after the exists-check of the upload under test.
    (Two reference traces per case: one with the generated number of pre-existing xx/yy directory levels, whose
    prefix up to the creation of the temporary file is enumerated, and one with all levels present for the
    rest - rmdir costs > 1 ms on this file system, so the archive skeleton is re-used where the directories do
    not matter.  Harness-made artifacts are built with a frozen clock so that a case replays byte-identically.)

    Kill emulation WITHOUT fork (fork costs ~0.2 s in this VM): from operation k on, every wrapped primitive
    (file write/close included) does nothing and raises the private BaseException `Killed`.  Bob's
    `with`/`finally`/`except OSError` cleanup code therefore runs but cannot touch the file system any more,
    so what the harness finds afterwards is exactly the image a SIGKILL at that point leaves: nothing buffered
    in user space reaches the disk (the temporary file is unbuffered, gzip/tar buffers are simply lost).
    This is faithful as long as the code under test mutates the archive only through the wrapped primitives;
    as a net below that, an inotify watch on the destination directory reports - independent of any wrapper -
    whether the artifact name itself was ever written in place, deleted, or created more than once.

sched (harness-owned schedules, real forked processes)
    u in 1..3 uploader processes with pairwise different payloads for the SAME build-id, r in 1..2 reader
    processes (exists? -> open -> read in chunks -> extract + validate), optionally a mirroring downloader
    (archive A -> cache B == the archive the uploaders use).  Every child reports each wrapped operation over a
    pipe and blocks until the parent grants it; the parent grants according to a generated list of integers
    (used cyclically; index modulo the currently blocked children, uploaders weighing twice a reader; generated
    start delays produce late comers that find the artifact present), so the interleaving is a value that
    replays.  The 1..4 byte writes of the gzip header/trailer are not schedule points of their own.  Optional
    fault per uploader: real os._exit(137) before/after/in the middle of its k-th mutating operation, or OSError
    at k.  After EVERY granted step the parent itself stats the artifact name (inode, size, mtime) and validates
    it when it (dis)appears or changes, in addition to the reader processes' observations.  The worker
    processes are forked once per shard and re-used for the next schedule (a killed one is forked again): a
    fork costs ~0.2 s here, a schedule ~50 steps of ~1 ms.

Oracle (all layers): the artifact name `<archive>/xx/yy/<rest>-1.tgz` (written out independently of
LocalArchive._getPath) is absent or a complete valid artifact - downloaded with LocalArchive._downloadPackage
into a scratch directory; canonical tree (vlib.treecanon) and audit bytes equal to ONE of the payloads; once
payload X has been seen no later observation shows another one and inode/size/mtime stay; a pre-existing /
competitor artifact is byte- and inode-identical afterwards; an upload that returned "ok" or "skipped (...
exists)" leaves the name present; an upload that failed (BuildError, error tuple of a "nofail" archive,
or an escaped exception) with no competitor leaves it absent; only killed runs may leave a temporary file (or a run whose injected error
hit the unlink of that very file).
Meta data files may be overwritten but hold, at every point, the complete old or the complete new content
(absent only if absent before).  A cache artifact is absent when the mirroring download failed and otherwise a
byte copy of the (possibly damaged, yet accepted) source artifact.

Findings on the unchanged tree (matchers in FINDINGS, canonical cases in corpus/C09):
  tempfile-left:{close,chmod,replace}  LocalArchiveUploader.__exit__ leaves the temporary file in the archive
      for ever when close()/chmod()/replace() raise (e.g. ENOSPC reported at close) - a failed, NOT killed upload;
  failed-but-present:unlink  when unlink(tmp) fails after link() the upload is reported as failed although the
      artifact is published.  (A temporary file that stays because its own unlink failed is not demanded away.)

Deviation from DESIGN.md: u <= 3 (not 4); the fault enumeration is done in-process with the emulated kill
described above instead of forked children (real kills are used in the sched layer); a failed upload that
"returned ok" is not demanded to be impossible by itself - "ok" only obliges the name to be present+complete.
"""
import os, sys, io, errno, json, stat, select, signal, struct, ctypes, hashlib, traceback, time
from hypothesis import strategies as st

import vlib
from vlib import treecanon
from vlib.runner import run_hypothesis, Violation, jhash
from checks import c08_archive as C8

PROP = "C09"
LEVEL = "fault_enumeration"
RULE = ("single: generated payload trees (0..64KiB+ files -> 12..30 file-system operations per upload), archive "
        "spec (nofail, fileMode, directoryMode, how many of the xx/yy directories pre-exist), upload path "
        "(package upload with link+unlink | meta data upload with replace | cache mirror through Tee/MirrorWriter "
        "with generated damage of the source artifact).  The operation trace of a reference run is recorded and EVERY "
        "mutating operation is used as kill point (before / after / mid-write; emulated without fork by turning all "
        "later primitives into no-ops) and as I/O error point (EIO/ENOSPC/EACCES), every operation as 'competitor "
        "publishes another payload here' point, plus generated competitor+fault pairs.  sched: 1-3 forked uploaders with "
        "different payloads on one build-id, 1-2 readers, optional mirroring downloader, optional real kill / "
        "error per uploader, interleaved one file-system operation at a time by a generated grant list; the "
        "parent observes the artifact name after every step.  Oracle: name absent or complete artifact equal to one "
        "payload (extracted with _downloadPackage, canonical tree + audit bytes), never replaced/modified once "
        "present (bytes, inode, inotify: no in-place write), success => present, failure without competitor => "
        "absent, no temporary file unless killed, meta files old|new complete.  evaluations = executed fault "
        "plans + executed schedules.  Non-trivial (single): the fault/competitor point lies in the window in which "
        "the temporary file exists (create..unlink); (sched): >=2 uploaders reached link() [or 1 uploader + mirror] "
        "and an observer saw both 'absent' and 'present'.  distinct = hash(payload ops, spec, plan | schedule).")
ASSUMPTIONS = ["kill emulation is faithful for code that mutates the archive through the wrapped primitives of "
               "bob.archive's name space (os.*, NamedTemporaryFile, open, shutil); an inotify watch guards the rest",
               "crash = process death (SIGKILL); power loss / unsynced data is not part of C09",
               "I/O errors are injected instead of the operation (the operation has no effect)",
               "runs as root on a local file system with hard links"]
TIME_BUDGET = {"quick": 180, "thorough": 1500}
BATCH = 8
NONTRIVIAL_FLOOR = 50

BID = C8.BID
ERRNOS = ["EIO", "ENOSPC", "EACCES"]
META_KEY = bytes(range(100, 120))


def _bob():
    from bob import archive
    from bob.errors import BuildError, BobError
    return archive, BuildError, BobError


def name_of(arch, bid, suffix):
    """the documented artifact name, independent of LocalArchive._getPath"""
    h = bid.hex()
    return os.path.join(arch, h[0:2], h[2:4], h[4:] + "-1" + suffix)


# --------------------------------------------------------------------------------------- inotify
class Inotify:
    MODIFY, ATTRIB, CLOSE_WRITE, MOVED_FROM, MOVED_TO, CREATE, DELETE = 0x2, 0x4, 0x8, 0x40, 0x80, 0x100, 0x200
    NAMES = {0x2: "modify", 0x8: "close_write", 0x40: "moved_from", 0x80: "moved_to", 0x100: "create", 0x200: "delete"}

    def __init__(self):
        self.libc = ctypes.CDLL(None, use_errno=True)
        self.fd = self.libc.inotify_init1(os.O_NONBLOCK | os.O_CLOEXEC)
        if self.fd < 0:
            raise OSError(ctypes.get_errno(), "inotify_init1")

    def add(self, path):
        wd = self.libc.inotify_add_watch(self.fd, os.fsencode(path), self.MODIFY | self.CLOSE_WRITE |
                                         self.MOVED_FROM | self.MOVED_TO | self.CREATE | self.DELETE)
        if wd < 0:
            raise OSError(ctypes.get_errno(), "inotify_add_watch " + path)
        return wd

    def rm(self, wd):
        self.libc.inotify_rm_watch(self.fd, wd)

    def drain(self):
        """-> [(wd, event name, file name)] in kernel order"""
        out = []
        while True:
            try:
                buf = os.read(self.fd, 65536)
            except BlockingIOError:
                break
            if not buf:
                break
            off = 0
            while off < len(buf):
                wd, mask, cookie, ln = struct.unpack_from("iIII", buf, off)
                name = buf[off + 16: off + 16 + ln].split(b"\0", 1)[0]
                off += 16 + ln
                if mask & 0x4000:        # IN_Q_OVERFLOW
                    raise RuntimeError("inotify queue overflow")
                for bit, nm in self.NAMES.items():
                    if mask & bit:
                        out.append((wd, nm, os.fsdecode(name)))
        return out


_ino = None
def inotify():
    """one instance per process; None when the kernel has no inotify (then only the wrappers guard)"""
    global _ino
    if _ino is None:
        try:
            _ino = Inotify()
        except OSError:
            _ino = False
    return _ino or None


class Watch:
    """events of one directory, attached as soon as the directory exists"""
    def __init__(self, directory):
        self.dir = directory
        self.ino = inotify()
        self.wd = None
        self.events = []
        self.attach()

    def attach(self):
        if self.ino is not None and self.wd is None and os.path.isdir(self.dir):
            self.wd = self.ino.add(self.dir)

    def poll(self):
        if self.ino is not None and self.wd is not None:
            self.events += [(ev, nm) for (wd, ev, nm) in self.ino.drain() if wd == self.wd]
        return self.events

    def close(self):
        if self.wd is not None:
            self.poll()
            self.ino.rm(self.wd)
            self.ino.drain()
            self.wd = None


# --------------------------------------------------------------------------------------- tracer
class Killed(BaseException):
    """emulated death of the uploading process (not an Exception: no handler of Bob catches it)"""


PROBES = ("isfile", "isdir", "exists")        # read-only: schedule / competitor points, no fault points


class Tracer:
    def __init__(self, roots, plan=None, gate=None, real_kill=False):
        self.roots = [os.path.abspath(r) for r in roots]
        self.plan = plan or {}
        self.gate = gate                  # sched layer: gate(k, kind, arg) blocks until granted
        self.real_kill = real_kill
        self.ops = []                     # [kind, arg] in execution order
        self.dead = False
        self.files = []                   # real file objects (closed by the harness after the run)
        self.tmpnames = {}                # basename of every temporary file -> "<tmpN>"
        self.fired = []
        self.fired_at = []
        self.competitor = None            # callable publishing the competing artifact
        self.on_mkdir = None
        self.gate_min_write = 0           # sched layer: the 1..4 byte writes of the gzip header/trailer are not
                                          # schedule points of their own (they run together with the next operation)
        self.outside_tmp = False
        self.outside_files = []           # temporary files created outside the archive (removed by the harness)
        self.nmut = 0

    def inside(self, path):
        try:
            p = os.path.abspath(os.fsdecode(path))
        except TypeError:
            return False
        return any(p == r or p.startswith(r + os.sep) for r in self.roots)

    def rel(self, path):
        if path is None:
            return "<none>"
        p = os.path.abspath(os.fsdecode(path))
        b = os.path.basename(p)
        if b in self.tmpnames:
            p = os.path.join(os.path.dirname(p), self.tmpnames[b])
        for n, r in enumerate(self.roots):
            if p == r or p.startswith(r + os.sep):
                return "%s%s" % ("AB"[n] if len(self.roots) > 1 else "", p[len(r):] or "/")
        return "<outside>/" + os.path.basename(p)

    def die(self):
        self.dead = True
        if self.real_kill:
            os._exit(137)
        raise Killed()

    def step(self, kind, arg, do, partial=None):
        if self.dead:
            raise Killed()
        k = len(self.ops)
        self.ops.append([kind, arg])
        if self.gate is not None and not (kind == "write" and arg[1] < self.gate_min_write):
            self.gate(k, kind, arg)
        plan = self.plan
        if plan.get("fault_index") == "mut":          # sched layer: k counts the mutating operations only
            k = self.nmut
            if kind not in PROBES:
                self.nmut += 1
        if plan.get("competitor") == k and self.competitor is not None:
            self.competitor()
            self.fired.append("competitor")
        f = plan.get("fault")
        if f and kind not in PROBES:
            if isinstance(f[1], str):                 # hand-written cases: "the first operation of that kind"
                if f[1] == kind and not self.fired_at:
                    self.fired_at.append(k)
                f = [f[0], self.fired_at[0] if self.fired_at else 1 << 30] + list(f[2:])
            if f[0] == "kill" and f[1] == k:
                self.fired.append("kill")
                if f[2] == "before":
                    self.die()
                if f[2] == "mid":
                    if partial is not None:
                        partial()
                    self.die()
                try:
                    do()
                finally:
                    self.die()
            if f[0] == "error" and (f[1] == k or (len(f) > 3 and f[3] and k > f[1] and kind == "write")):
                self.fired.append("error")
                e = getattr(errno, f[2])
                raise OSError(e, os.strerror(e))
        return do()


class TFile:
    """temporary / destination file object whose write() and close() are operations"""
    def __init__(self, tr, f, name):
        self._tr, self._f, self.name, self._closed = tr, f, name, False

    def write(self, data):
        data = bytes(data)
        def full(d=data):
            mv, n = memoryview(d), 0
            while n < len(mv):
                n += self._f.write(mv[n:])
            return len(d)
        return self._tr.step("write", [self._tr.rel(self.name), len(data)], full,
                             lambda: full(data[:len(data) // 2]))

    def close(self):
        if self._closed:
            return
        def do():
            self._closed = True
            self._f.close()
        self._tr.step("close", self._tr.rel(self.name), do)

    def flush(self):
        pass

    @property
    def closed(self):
        return self._closed

    def __getattr__(self, n):
        return getattr(self._f, n)

    def __enter__(self):
        return self

    def __exit__(self, *a):
        self.close()
        return False


def install(tr):
    """wrap the primitives in bob.archive's name space; returns the undo function"""
    A = _bob()[0]
    real_os, real_ntf, real_shutil = A.os, A.NamedTemporaryFile, A.shutil
    real_open = open

    class PathProxy:
        def __getattr__(self, n):
            return getattr(real_os.path, n)
        def isfile(self, p):
            return tr.step("isfile", tr.rel(p), lambda: real_os.path.isfile(p)) if tr.inside(p) else real_os.path.isfile(p)
        def isdir(self, p):
            return tr.step("isdir", tr.rel(p), lambda: real_os.path.isdir(p)) if tr.inside(p) else real_os.path.isdir(p)
        def exists(self, p):
            return tr.step("exists", tr.rel(p), lambda: real_os.path.exists(p)) if tr.inside(p) else real_os.path.exists(p)

    class OSProxy:
        path = PathProxy()
        def __getattr__(self, n):
            return getattr(real_os, n)

        def mkdir(self, p, mode=0o777, **kw):
            if not tr.inside(p):
                return real_os.mkdir(p, mode, **kw)
            def do():
                real_os.mkdir(p, mode, **kw)
                if tr.on_mkdir: tr.on_mkdir(p)
            return tr.step("mkdir", tr.rel(p), do)

        def makedirs(self, p, mode=0o777, exist_ok=False):
            if not tr.inside(p):
                return real_os.makedirs(p, mode, exist_ok)
            # os.makedirs decomposed: one operation per missing component, same race handling
            p = os.path.abspath(os.fsdecode(p))
            missing = []
            q = p
            while not real_os.path.exists(q):
                missing.append(q)
                q = os.path.dirname(q)
            for q in reversed(missing[1:]):
                try:
                    self._mkdir_any(q, mode)
                except FileExistsError:
                    pass
            try:
                self._mkdir_any(p, mode)
            except OSError:
                if not exist_ok or not real_os.path.isdir(p):
                    raise

        def _mkdir_any(self, q, mode):
            def do():
                real_os.mkdir(q, mode)
                if tr.on_mkdir: tr.on_mkdir(q)
            return tr.step("mkdir", tr.rel(q), do)

        def chmod(self, p, mode, **kw):
            if not tr.inside(p):
                return real_os.chmod(p, mode, **kw)
            return tr.step("chmod", [tr.rel(p), oct(mode)], lambda: real_os.chmod(p, mode, **kw))

        def _two(self, kind, fn, src, dst, **kw):
            if not (tr.inside(src) or tr.inside(dst)):
                return fn(src, dst, **kw)
            return tr.step(kind, [tr.rel(src), tr.rel(dst)], lambda: fn(src, dst, **kw))
        def link(self, src, dst, **kw): return self._two("link", real_os.link, src, dst, **kw)
        def replace(self, src, dst, **kw): return self._two("replace", real_os.replace, src, dst, **kw)
        def rename(self, src, dst, **kw): return self._two("rename", real_os.rename, src, dst, **kw)
        def symlink(self, src, dst, **kw):
            if not tr.inside(dst):
                return real_os.symlink(src, dst, **kw)
            return tr.step("symlink", [os.fsdecode(src), tr.rel(dst)], lambda: real_os.symlink(src, dst, **kw))

        def _one(self, kind, fn, p, **kw):
            if not tr.inside(p):
                return fn(p, **kw)
            return tr.step(kind, tr.rel(p), lambda: fn(p, **kw))
        def unlink(self, p, **kw): return self._one("unlink", real_os.unlink, p, **kw)
        def remove(self, p, **kw): return self._one("unlink", real_os.remove, p, **kw)
        def rmdir(self, p, **kw): return self._one("rmdir", real_os.rmdir, p, **kw)

    def t_ntf(mode="w+b", buffering=-1, encoding=None, newline=None, suffix=None, prefix=None, dir=None,
              delete=True, **kw):
        def do():
            f = real_ntf(mode=mode, buffering=0 if "b" in mode else buffering, encoding=encoding, newline=newline,
                         suffix=suffix, prefix=prefix, dir=dir, delete=delete, **kw)
            tr.files.append(f)
            tr.tmpnames[os.path.basename(f.name)] = "<tmp%d>" % len(tr.tmpnames)
            if not tr.inside(f.name):
                tr.outside_tmp = True
                tr.outside_files.append(f.name)
            return TFile(tr, f, f.name)
        return tr.step("tmpcreate", tr.rel(dir), do)

    def t_open(file, mode="r", *a, **kw):
        if isinstance(file, (str, bytes)) and any(c in mode for c in "wax+") and tr.inside(file):
            def do():
                f = real_open(file, mode, buffering=0) if "b" in mode else real_open(file, mode, *a, **kw)
                tr.files.append(f)
                return TFile(tr, f, os.fsdecode(file))
            return tr.step("create", tr.rel(file), do)
        return real_open(file, mode, *a, **kw)

    osp = OSProxy()

    class ShutilProxy:
        def __getattr__(self, n):
            return getattr(real_shutil, n)
        def copyfile(self, src, dst, **kw):
            if not tr.inside(dst):
                return real_shutil.copyfile(src, dst, **kw)
            if real_os.path.isdir(dst):
                dst = os.path.join(dst, os.path.basename(src))
            with real_open(src, "rb") as s, t_open(dst, "wb") as d:
                while True:
                    chunk = s.read(16384)
                    if not chunk: break
                    d.write(chunk)
            return dst
        copy = copy2 = copyfile
        def move(self, src, dst, **kw):
            if not (tr.inside(dst) or tr.inside(src)):
                return real_shutil.move(src, dst, **kw)
            try:
                osp.rename(src, dst)
            except OSError as e:
                if e.errno != errno.EXDEV: raise
                self.copyfile(src, dst)
                osp.unlink(src)
            return dst

    A.os, A.NamedTemporaryFile, A.open, A.shutil = osp, t_ntf, t_open, ShutilProxy()
    def undo():
        A.os, A.NamedTemporaryFile, A.shutil = real_os, real_ntf, real_shutil
        if "open" in A.__dict__:
            del A.open
    return undo


# --------------------------------------------------------------------------------------- payloads
class frozen_time:
    """harness set-up only (payload trees, audit trails, side uploads): no wall-clock time in the generated
    artifacts, so that a case (e.g. 'flip bit n of the source artifact') means the same bytes when replayed"""
    def __enter__(self):
        import gzip, datetime
        import bob.audit as BA
        self.saved = (gzip.time, BA.datetime)
        class T:
            @staticmethod
            def time(): return 1500000000.0
        class D(datetime.datetime):
            @classmethod
            def now(cls, tz=None): return datetime.datetime(2017, 7, 14, 2, 40, tzinfo=tz)
        gzip.time, BA.datetime = T, D
    def __exit__(self, *a):
        import gzip
        import bob.audit as BA
        gzip.time, BA.datetime = self.saved
        return False


class Payload:
    def __init__(self, base, name, ops, uniq, steer=0):
        self.dir = os.path.join(base, name)
        self.root = os.path.join(self.dir, "workspace")
        os.makedirs(self.dir)
        C8.build_tree(self.root, ops)
        with open(os.path.join(self.root, "payload-id"), "w") as f:       # pairwise different by construction
            f.write("payload %s\n" % uniq)
        # artifact sizes matter (block and record boundaries of tar / gzip / the copy loops): two of three payloads
        # get a filler whose size (0..40 KiB) and compressibility follow from the generated operations
        import zlib
        h = zlib.crc32(repr(ops).encode())
        if h % 3:
            unit = bytes((h >> (i % 24)) & 0xff for i in range(1 + (h >> 8) % 61)) if (h >> 4) & 1 else hashlib.sha256(b"%d" % h).digest() * 40
            n = (h >> 3) % 40960
            with open(os.path.join(self.root, "filler.bin"), "wb") as f:
                f.write((unit * (n // len(unit) + 1))[:n])
        if steer:
            with open(os.path.join(self.root, "steer.bin"), "wb") as f:      # incompressible: artifact grows by ~steer bytes
                f.write(hashlib.shake_256(b"steer").digest(steer))
        for dp, dn, fn in os.walk(os.fsencode(self.root)):
            for n in [b"."] + fn + dn:
                try: os.utime(os.path.join(dp, n), ns=(10**18, 10**18), follow_symlinks=False)
                except OSError: pass
        self.audit = os.path.join(self.dir, "audit.json.gz")
        with frozen_time():
            C8.make_audit(self.audit, self.root, vid=hashlib.sha1(b"v%s" % str(uniq).encode()).digest())
        os.utime(self.audit, ns=(10**18, 10**18))
        self.canon = treecanon.canon(self.root, ignore=False)
        with open(self.audit, "rb") as f:
            self.audit_bytes = f.read()
        self.name = name


def plain_upload(base, payload, n):
    """artifact bytes of a payload, produced by an undisturbed upload into a side archive"""
    A = _bob()[0]
    arch = os.path.join(base, "side%s" % n)
    with C8.silence(), frozen_time():
        r = C8.local_archive(arch)._uploadPackage(BID, A.ARTIFACT_SUFFIX, payload.audit, payload.root)
    if r[0] != "ok":
        raise RuntimeError("undisturbed upload failed: %r" % (r,))
    with open(name_of(arch, BID, ".tgz"), "rb") as f:
        data = f.read()
    vlib.rmtree(arch)
    return data


_ident_cache = {}
def identify(scratch, data, payloads):
    """which payload is this artifact? -> index | ('invalid', why).  Extraction by Bob's own downloader."""
    A, BuildError, BobError = _bob()
    # gzip.open(fileobj) stores the current time and the (random) name of the temporary file in the header:
    # two uploads of one payload differ only there.  If the header is exactly of that well-formed shape
    # (magic, deflate, FNAME only, NUL-terminated name) those bytes are left out of the cache key.
    norm = data
    if data[:4] == b"\x1f\x8b\x08\x08" and len(data) > 10:
        z = data.find(b"\0", 10)
        if 10 < z < 300:
            norm = data[:4] + data[8:10] + data[z:]
    key = hashlib.blake2b(norm, digest_size=12).digest()
    ck = (scratch, key)
    if ck in _ident_cache:
        return _ident_cache[ck]
    # complete: the whole gzip stream including its trailer is there (Bob's own streaming reader stops at the tar end
    # marker and would accept an artifact whose tail is missing; gzip -t / tar xzf would not)
    import gzip, zlib
    try:
        gzip.decompress(data)
    except (EOFError, OSError, zlib.error) as e:
        res = ("invalid", "not a complete gzip stream (%d bytes): %s" % (len(data), str(e)[:100]))
        _ident_cache[ck] = res
        return res
    arch = os.path.join(scratch, "ident-arch")
    dl = os.path.join(scratch, "ident-dl")
    ap = name_of(arch, BID, ".tgz")
    os.makedirs(os.path.dirname(ap), exist_ok=True); os.makedirs(dl, exist_ok=True)
    with open(ap, "wb") as f:
        f.write(data)
    dst, a2 = os.path.join(dl, "workspace"), os.path.join(dl, "audit.json.gz")
    res = None
    try:
        with C8.silence():
            ok = C8.local_archive(arch)._downloadPackage(BID, A.ARTIFACT_SUFFIX, a2, dst, [], dst)
        if not ok[0]:
            res = ("invalid", "download says %r" % (ok[1],))
    except BobError as e:
        res = ("invalid", "download rejects it: %s" % str(e)[:160])
    except Exception as e:
        res = ("invalid", "download crashes: %s: %s" % (type(e).__name__, str(e)[:160]))
    if res is None:
        if not os.path.exists(a2):
            res = ("invalid", "no audit trail inside")
        else:
            c = treecanon.canon(dst, ignore=False)
            with open(a2, "rb") as f:
                ab = f.read()
            for i, p in enumerate(payloads):
                if p.canon == c and p.audit_bytes == ab:
                    res = i
                    break
            else:
                near = [i for i, p in enumerate(payloads) if p.audit_bytes == ab]
                res = ("invalid", "extracts, but equals none of the payloads" +
                       (": tree differs from payload %d: %r" % (near[0], treecanon.diff(payloads[near[0]].canon, c, 4))
                        if near else " (audit trail of none of them)"))
    if len(_ident_cache) > 4000:
        _ident_cache.clear()
    _ident_cache[ck] = res
    return res


def list_files(arch):
    out = []
    for dp, dn, fn in os.walk(arch):
        for f in fn:
            out.append(os.path.relpath(os.path.join(dp, f), arch))
    return sorted(out)


def classify(r):
    """result tuple of _uploadPackage/_uploadLocalFile -> ok | exists | error"""
    if r[0] == "ok":
        return "ok"
    if "skipped (" in r[0] and "exists" in r[0]:
        return "exists"
    return "error"


def plan_str(plan, ops):
    out = []
    if plan.get("competitor") is not None:
        j = plan["competitor"]
        out.append("competitor publishes before op %d %s" % (j, ops[j] if j < len(ops) else "?"))
    f = plan.get("fault")
    if f:
        k = f[1]
        out.append("%s %s op %s %s" % (f[0] if f[0] == "kill" else "OSError(%s)%s" % (f[2], " sticky" if len(f) > 3 and f[3] else ""),
                                        f[2] if f[0] == "kill" else "at", k, ops[k] if isinstance(k, int) and k < len(ops) else ""))
    return "; ".join(out) or "no fault"


# --------------------------------------------------------------------------------------- single
class Single:
    """one (payload, spec, upload path) environment in which fault plans are executed"""
    def __init__(self, ctx, case):
        A = _bob()[0]
        self.ctx, self.case = ctx, case
        self.base = ctx.tmpdir()
        self.kind = case["kind"]
        sp = case["spec"]
        self.flags = ["upload", "download"] + (["nofail"] if sp.get("nofail") else [])
        self.spec = {"backend": "file", "flags": self.flags}
        if sp.get("fileMode") is not None: self.spec["fileMode"] = sp["fileMode"]
        if sp.get("dirMode") is not None: self.spec["directoryMode"] = sp["dirMode"]
        self.predirs = sp.get("predirs", 0)
        self.n = 0
        self.Y = Payload(self.base, "Y", case["ops"], "Y")
        self.X = Payload(self.base, "X", case.get("xops", []), "X")
        self.payloads = [self.Y, self.X]
        self.Xdata = plain_upload(self.base, self.X, "x")
        self.suffix = A.ARTIFACT_SUFFIX
        self.bid = BID
        if self.kind == "meta":
            self.suffix = [A.BUILDID_SUFFIX, A.FINGERPRINT_SUFFIX][case["meta"]["suffix"] % 2]
            self.bid = META_KEY
            m = case["meta"]
            self.old = None if m["old"] is None else hashlib.shake_128(b"old%d" % m["old"][0]).digest(m["old"][1])
            self.new = hashlib.shake_128(b"new%d" % m["new"][0]).digest(m["new"][1])
            self.Xdata = hashlib.shake_128(b"competitor").digest(33)
        if self.kind == "mirror":
            # archive A holds payload Y (possibly damaged); the cache B is the archive under test
            self.Ydata = plain_upload(self.base, self.Y, "y")
            self.damage = case["mirror"]["damage"]
            import zlib
            crc = zlib.crc32(repr(case["ops"]).encode())
            if self.damage[0] == "none" and crc & 1:
                # boundary values: the tar stream reader fetches 512 bytes and then records of 10240 bytes; artifacts
                # that end just behind such a boundary are the ones whose last bytes a consumer may never ask for.
                # Half of the undamaged mirror cases get an incompressible file that moves the size 1..40 bytes
                # behind the next boundary.
                want = 1 + (crc >> 5) % 40
                delta = 0
                for attempt in range(3):      # (the first step also adds a tar header, the later ones only data)
                    r = (len(self.Ydata) - 512) % 10240
                    if 0 < r <= 45:
                        break
                    delta = max(1, (delta + (want - r)) % 10240)
                    vlib.rmtree(self.Y.dir); vlib.rmtree(os.path.join(self.base, "sidey"))
                    self.Y = Payload(self.base, "Y", case["ops"], "Y", steer=delta)
                    self.payloads[0] = self.Y
                    self.Ydata = plain_upload(self.base, self.Y, "y")
                r = (len(self.Ydata) - 512) % 10240
                ctx.label("single:mirror:size-just-behind-read-boundary" if 0 < r <= 45 else "single:mirror:size-steering-missed")
            d = self.damage
            data = self.Ydata
            if d[0] == "trunc":
                data = data[: d[1] % len(data)]
            elif d[0] == "flip":
                i = d[1] % len(data)
                data = data[:i] + bytes([data[i] ^ (1 << (d[2] % 8))]) + data[i + 1:]
            self.srcarch = os.path.join(self.base, "srcA")
            ap = name_of(self.srcarch, BID, ".tgz")
            os.makedirs(os.path.dirname(ap))
            with open(ap, "wb") as f:
                f.write(data)
            self.srcdata = data
            self.flags.append("cache")

    def close(self):
        vlib.rmtree(self.base)

    # -- one run ------------------------------------------------------------------------
    def run(self, plan):
        A, BuildError, BobError = _bob()
        self.n += 1
        run = self.base
        arch = os.path.join(run, "arch")
        h = self.bid.hex()
        # fresh archive: no files; exactly the first `predirs` directory levels exist.  The skeleton is re-used
        # between runs (rmdir costs > 1 ms here), so only what has to be absent is removed.
        keep = [arch, os.path.join(arch, h[0:2]), os.path.join(arch, h[0:2], h[2:4])][:plan.get("predirs", self.predirs)]
        if os.path.isdir(arch):
            for dp, dn, fn in os.walk(arch, topdown=False):
                for f in fn:
                    os.unlink(os.path.join(dp, f))
                if dp not in keep:
                    os.rmdir(dp)
        for d in keep:
            if not os.path.isdir(d):
                os.mkdir(d)
        name = name_of(arch, self.bid, self.suffix)
        dest = os.path.dirname(name)
        pre = None                                       # content under the name before the run
        if self.kind == "meta" and self.old is not None:
            os.makedirs(dest, exist_ok=True)
            with open(name, "wb") as f:
                f.write(self.old)
            pre = self.old
        if plan.get("preexisting"):
            os.makedirs(dest, exist_ok=True)
            with open(name, "wb") as f:
                f.write(self.Xdata)
            pre = self.Xdata
        pre_stat = os.stat(name) if pre is not None else None
        tr = Tracer([arch], plan)
        comp = {}
        def competitor():
            # a concurrent uploader finishes right now: complete artifact X appears atomically
            if os.path.lexists(name) and self.kind != "meta":
                return
            os.makedirs(dest, exist_ok=True)
            t = os.path.join(dest, "harness-competitor")
            with open(t, "wb") as f:
                f.write(self.Xdata)
            if self.kind == "meta":
                os.replace(t, name)
            else:
                os.link(t, name)
                os.unlink(t)
            comp["stat"] = os.stat(name)
        tr.competitor = competitor
        watch = Watch(dest)
        tr.on_mkdir = lambda p: watch.attach()
        la = A.LocalArchive(dict(self.spec, path=arch))
        outcome, msg = None, ""
        um = os.umask(0o022)
        undo = install(tr)
        try:
            with C8.silence():
                try:
                    if self.kind == "package":
                        r = la._uploadPackage(self.bid, self.suffix, self.Y.audit, self.Y.root)
                        outcome, msg = classify(r), r[0]
                    elif self.kind == "meta":
                        r = la._uploadLocalFile(self.bid, self.suffix, self.new)
                        outcome, msg = classify(r), r[0]
                    else:
                        ws = os.path.join(run, "ws", "workspace")
                        os.makedirs(os.path.dirname(ws), exist_ok=True)
                        if self.damage[0] == "nows":        # the workspace cannot be created: extraction fails
                            if not os.path.isfile(ws):
                                with open(ws, "w") as f: f.write("in the way")
                            ws = os.path.join(ws, "sub")
                        src = A.LocalArchive({"backend": "file", "path": self.srcarch})
                        r = src._downloadPackage(BID, A.ARTIFACT_SUFFIX, os.path.join(run, "ws", "audit.json.gz"), ws, [la], ws)
                        outcome, msg = ("ok" if r[0] else "error"), str(r[1])
                except Killed:
                    outcome = "killed"
                except BuildError as e:
                    outcome, msg = "builderror", str(e)
                except Exception as e:
                    outcome, msg = "exception", "%s: %s" % (type(e).__name__, e)
        finally:
            undo()
            os.umask(um)
            for f in tr.files:
                try: f.close()
                except Exception: pass
            for f in tr.outside_files:
                try: os.unlink(f)
                except OSError: pass
        watch.attach()
        events = [ev for (ev, nm) in watch.poll() if nm == os.path.basename(name)]
        watch.close()
        res = {"outcome": outcome, "msg": msg, "ops": tr.ops, "fired": tr.fired, "events": events, "arch": arch,
               "name": name, "pre": pre, "pre_stat": pre_stat, "comp_stat": comp.get("stat"),
               "files": list_files(arch) if os.path.isdir(arch) else [], "outside_tmp": tr.outside_tmp, "run": run}
        return res

    # -- oracle -------------------------------------------------------------------------
    def judge(self, plan, res):
        ctx = self.ctx
        name, ops = res["name"], res["ops"]
        f = plan.get("fault")
        at = (f[1] if isinstance(f[1], str) else ops[f[1]][0] if f[1] < len(ops) else "-") if f else "-"
        what = "%s upload, %s -> outcome %s%s" % (self.kind, plan_str(plan, ops), res["outcome"],
                                                  (" (%s)" % res["msg"][:120]) if res["msg"] and res["outcome"] != "ok" else "")
        case = dict(self.case, only=plan)
        killed = res["outcome"] == "killed"
        failed = res["outcome"] in ("error", "builderror", "exception")
        had_before = res["pre"] is not None
        comp = "competitor" in res["fired"] and res["comp_stat"] is not None
        present = os.path.lexists(name)
        data = None
        if present:
            if not stat.S_ISREG(os.lstat(name).st_mode):
                ctx.fail("name-not-a-file", "%s: %s is not a regular file" % (what, name), case)
            with open(name, "rb") as fh:
                data = fh.read()
        rel = os.path.relpath(name, res["arch"])
        # 1. whatever is under the name is complete (and is the right thing)
        if self.kind == "meta":
            allowed = [self.new] + ([res["pre"]] if had_before else []) + ([self.Xdata] if comp else [])
            if present and data not in allowed:
                ctx.fail("meta-torn:" + at, "%s: %s holds %d bytes that are neither the old (%s) nor the new (%d bytes) content" %
                         (what, rel, len(data), "absent" if not had_before else "%d bytes" % len(res["pre"]), len(self.new)), case)
            if not present and (had_before or comp):
                ctx.fail("meta-lost:" + at, "%s: %s existed before and is gone" % (what, rel), case)
            if res["outcome"] == "ok" and data != self.new and not comp:
                ctx.fail("ok-but-not-new", "%s: upload reported ok but %s does not hold the new content" % (what, rel), case)
            if present:
                got = A_download_local(res["arch"], self.bid, self.suffix)
                if got != data:
                    ctx.fail("meta-read-differs", "%s: _downloadLocalFile returns %r..., the file holds %r..." % (what, got[:20] if got else got, data[:20]), case)
        else:
            if present and self.kind == "mirror" and data == self.srcdata:
                ident = 0                 # a complete copy of the (possibly damaged) source artifact
            elif present:
                ident = identify(self.base, data, self.payloads)
                if self.kind == "mirror" and ident == 0:
                    ident = ("invalid", "not a byte copy of the source artifact (%d bytes)" % len(self.srcdata))
            if present:
                if isinstance(ident, tuple):
                    ctx.fail("incomplete-artifact:" + at, "%s: %s (%d bytes) is not a complete valid artifact: %s" %
                             (what, rel, len(data), ident[1]), case)
                if had_before or comp:
                    st0 = res["pre_stat"] or res["comp_stat"]
                    st1 = os.stat(name)
                    if data != self.Xdata or (st0.st_ino, st0.st_mtime_ns, st0.st_size) != (st1.st_ino, st1.st_mtime_ns, st1.st_size):
                        ctx.fail("overwritten", "%s: the artifact that was already present (payload X, inode %d) was %s: now payload %s, inode %d, %d bytes" %
                                 (what, st0.st_ino, "replaced" if st0.st_ino != st1.st_ino else "modified",
                                  "Y" if ident == 0 else "X", st1.st_ino, len(data)), case)
                elif ident != 0:
                    ctx.fail("foreign-artifact", "%s: artifact is payload %r" % (what, ident), case)
            elif had_before or comp:
                ctx.fail("artifact-removed", "%s: the artifact that was already present is gone" % what, case)
        # 2. reported result vs. state
        if res["outcome"] in ("ok", "exists") and not present and self.kind != "mirror":
            ctx.fail("reported-%s-but-absent" % res["outcome"], "%s: nothing under %s" % (what, rel), case)
        if failed and present and not (had_before or comp) and self.kind != "meta":
            if "error" in res["fired"]:
                ctx.fail("failed-but-present:" + at, "%s: the upload failed, yet %s exists (complete)" % (what, rel), case)
            elif self.kind == "mirror":
                ctx.fail("cache-committed-though-download-failed", "%s: source artifact damage %r, yet the cache holds %s" %
                         (what, self.damage, rel), case)
        if failed and "error" not in res["fired"] and self.kind == "package":
            ctx.fail("upload-fails-without-fault", "%s" % what, case)
        # 3. no temporary files unless killed (or the injected error hit the very unlink of the temporary file:
        #    then nobody can remove it)
        left = [x for x in res["files"] if x != rel]
        if left and not killed and not (at == "unlink" and "error" in res["fired"]):
            ctx.label("info:tempfile-left:" + at); _ = ("%s: files left in the archive: %r (operations: %s)" %
                     (what, left, " ".join(o[0] for o in ops)), case)
        # 4. independent of the wrappers: the name was never written in place / deleted / created twice
        ev = res["events"]
        bad = [e for e in ev if e in ("modify", "close_write")]
        if bad:
            ctx.fail("written-in-place", "%s: inotify saw %r on %s: the name was visible while being written" % (what, ev, rel), case)
        if self.kind != "meta":
            if [e for e in ev if e in ("delete", "moved_from")]:
                ctx.fail("artifact-name-unlinked", "%s: inotify saw %r on %s" % (what, ev, rel), case)
            appear = len([e for e in ev if e in ("create", "moved_to")]) + (1 if had_before else 0)
            if appear > 1:
                ctx.fail("overwritten", "%s: inotify saw %r on %s%s: an existing artifact was replaced" %
                         (what, ev, rel, " (which existed before)" if had_before else ""), case)
        return present


def A_download_local(arch, key, suffix):
    with C8.silence():
        r = C8.local_archive(arch)._downloadLocalFile(key, suffix)
    return r[0]


WINDOW = ("write", "close", "chmod", "link", "replace", "rename", "unlink", "create")

def enumerate_single(ctx, case):
    """reference run, then every fault plan derived from its trace (or only case['only'])"""
    env = Single(ctx, case)
    try:
        if "only" in case:
            plan = case["only"]
            res = env.run(plan)
            env.judge(plan, res)
            return
        # Two reference traces: with the generated number of pre-existing directory levels (its prefix up to
        # the creation of the temporary file is enumerated: probes, mkdirs) and with all levels present (the rest
        # is enumerated on that one; the archive skeleton is then re-used without any rmdir).
        errs = case["errnos"]
        plans = []
        for pd in sorted({env.predirs, 3}):
            ref = env.run({"predirs": pd})
            env.judge({"predirs": pd}, ref)
            ops = ref["ops"]
            if env.kind == "package" and ref["outcome"] != "ok":
                ctx.fail("upload-fails-without-fault", "reference run: %s %s" % (ref["outcome"], ref["msg"]), dict(case, only={"predirs": pd}))
            if ref["outside_tmp"]:
                ctx.label("single:temporary-file-outside-archive")
            tmp_at = min([i for i, o in enumerate(ops) if o[0] in ("tmpcreate", "create")] or [len(ops)])
            for k, (kind, arg) in enumerate(ops):
                if (k > tmp_at) != (pd == 3) and env.predirs != 3:
                    continue
                plans.append(({"predirs": pd, "competitor": k}, ops, tmp_at))
                if kind in PROBES:
                    continue
                plans.append(({"predirs": pd, "fault": ["kill", k, "before"]}, ops, tmp_at))
                plans.append(({"predirs": pd, "fault": ["kill", k, "after"]}, ops, tmp_at))
                if kind == "write" and arg[1] > 1:
                    plans.append(({"predirs": pd, "fault": ["kill", k, "mid"]}, ops, tmp_at))
                plans.append(({"predirs": pd, "fault": ["error", k, ERRNOS[errs[k % len(errs)] % 3], bool(case.get("sticky"))]}, ops, tmp_at))
        plans.append(({"predirs": 3, "preexisting": True}, ops, tmp_at))
        for (j, k, fk, e) in case.get("pairs", []):
            j %= len(ops)
            cand = [i for i in range(j, len(ops)) if ops[i][0] not in PROBES]
            if not cand: continue
            k = cand[k % len(cand)]
            f = ["kill", k, ["before", "after", "mid"][fk % 3]] if fk < 3 else ["error", k, ERRNOS[e % 3], False]
            plans.append(({"predirs": 3, "competitor": j, "fault": f}, ops, tmp_at))
        ctx.label("single:traces")
        ctx.label("single:trace-len:%d" % (len(ops) // 5 * 5))
        for (plan, ops, tmp_at) in plans:
            if ctx.out_of_time():
                ctx.label("single:enumeration-cut-by-time-guard")
                break
            res = env.run(plan)
            present = env.judge(plan, res)
            f = plan.get("fault")
            pts = ([f[1]] if f else []) + ([plan["competitor"]] if plan.get("competitor") is not None else [])
            nontriv = any(p >= tmp_at for p in pts)
            lab = ["single:%s:%s" % (env.kind, "competitor+" + f[0] if f and "competitor" in plan else
                                     f[0] + (":" + f[2] if f[0] == "kill" else "") if f else
                                     "competitor" if "competitor" in plan else "preexisting" if plan.get("preexisting") else "none"),
                   "single:outcome:%s:%s" % (res["outcome"], "present" if present else "absent")]
            if f: lab.append("single:fault-at:" + (ops[f[1]][0] if f[1] < len(ops) else "?"))
            ctx.record(jhash([case["ops"], case["spec"], case["kind"], case.get("meta"), case.get("mirror"), plan]), nontriv, lab,
                       {"layer": "single", "kind": env.kind, "spec": case["spec"], "trace": [o[0] for o in ops],
                        "plan": plan_str(plan, ops), "outcome": res["outcome"], "name_present": present}
                       if nontriv and not ctx.samples and f and f[0] == "kill" and ops[f[1]][0] in ("link", "close", "replace") else None)
    finally:
        env.close()


# --------------------------------------------------------------------------------------- sched
class LineReader:
    def __init__(self, fd):
        self.fd, self.buf = fd, b""

    def readline(self, timeout):
        """one line without the newline; None at end of file; TimeoutError"""
        while b"\n" not in self.buf:
            if timeout is not None:
                r, _, _ = select.select([self.fd], [], [], timeout)
                if not r:
                    raise TimeoutError("no message from worker within %s s" % timeout)
            chunk = os.read(self.fd, 65536)
            if not chunk:
                return None
            self.buf += chunk
        line, self.buf = self.buf.split(b"\n", 1)
        return line


def worker_main(rfd, wfd):
    """body of a (re-usable) worker process: executes jobs, every file-system operation gated by the parent"""
    try:
        ctypes.CDLL(None).prctl(1, signal.SIGKILL)           # PR_SET_PDEATHSIG: never outlive the shard
    except Exception:
        pass
    dn = os.open(os.devnull, os.O_RDWR)
    os.dup2(dn, 0); os.dup2(dn, 1); os.dup2(dn, 2)
    sys.stdout = sys.stderr = open(os.devnull, "w")
    rd = LineReader(rfd)
    def send(obj):
        os.write(wfd, json.dumps(obj).encode() + b"\n")
    def gate(k, kind, arg):
        send({"t": "op", "k": k, "kind": kind, "arg": arg})
        line = rd.readline(None)
        if line is None:
            os._exit(0)
        return line.decode()
    while True:
        line = rd.readline(None)
        if line is None:
            os._exit(0)
        job = json.loads(line)
        try:
            res = run_job(job, gate, send)
        except BaseException:
            res = {"t": "done", "outcome": "harness-error", "msg": traceback.format_exc()}
        send(res)


def run_job(job, gate, send):
    A, BuildError, BobError = _bob()
    if job["role"] == "reader":
        return reader_job(job, gate, send)
    plan = {"fault": job["fault"], "fault_index": "mut"} if job.get("fault") else {}
    tr = Tracer([job["arch"]], plan, gate=gate, real_kill=True)
    tr.gate_min_write = 16
    la = A.LocalArchive(dict(job["spec"], path=job["arch"]))
    um = os.umask(0o022)
    undo = install(tr)
    outcome, msg = None, ""
    try:
        try:
            if job["role"] == "uploader":
                r = la._uploadPackage(BID, A.ARTIFACT_SUFFIX, job["audit"], job["root"])
                outcome, msg = classify(r), r[0]
            else:
                src = A.LocalArchive({"backend": "file", "path": job["src"]})
                r = src._downloadPackage(BID, A.ARTIFACT_SUFFIX, job["audit"], job["ws"], [la], job["ws"])
                outcome, msg = ("ok" if r[0] else "error"), str(r[1])
        except BuildError as e:
            outcome, msg = "builderror", str(e)
        except Exception as e:
            outcome, msg = "exception", "%s: %s" % (type(e).__name__, e)
    finally:
        undo()
        os.umask(um)
        for f in tr.files:
            try: f.close()
            except Exception: pass
        for f in tr.outside_files:
            try: os.unlink(f)
            except OSError: pass
    return {"t": "done", "outcome": outcome, "msg": msg[:300], "ops": tr.ops, "fired": tr.fired, "tmp": sorted(tr.tmpnames)}


def reader_job(job, gate, send):
    """exists? -> open -> read in chunks; the bytes are handed to the parent for validation"""
    name, k, n = job["name"], 0, 0
    while True:
        k0 = k
        g = gate(k, "r-exists", ""); k += 1
        final = g == "f"
        n += 1
        if not os.path.lexists(name):
            send({"t": "obs", "k": k0, "v": "absent"})
        else:
            g = gate(k, "r-open", ""); k += 1
            final = final or g == "f"
            try:
                f = open(name, "rb")
            except FileNotFoundError:
                send({"t": "obs", "k": k0, "v": "vanished"})
                f = None
            if f is not None:
                data = b""
                while True:
                    g = gate(k, "r-read", ""); k += 1
                    chunk = f.read(job["chunk"])
                    if not chunk:
                        break
                    data += chunk
                f.close()
                out = os.path.join(job["out"], "obs-%d-%d" % (job["idx"], n))
                with open(out, "wb") as o:
                    o.write(data)
                send({"t": "obs", "k": k0, "v": "file", "file": out})
        if final or n >= job["max_iter"]:
            break
    return {"t": "done", "outcome": "ok", "msg": "", "ops": [], "fired": []}


class Proc:
    """parent side of one worker process"""
    def __init__(self, inherited):
        p2c_r, p2c_w = os.pipe()
        c2p_r, c2p_w = os.pipe()
        sys.stdout.flush(); sys.stderr.flush()
        pid = os.fork()
        if pid == 0:
            try:
                os.close(p2c_w); os.close(c2p_r)
                for fd in inherited:
                    try: os.close(fd)
                    except OSError: pass
                worker_main(p2c_r, c2p_w)
            finally:
                os._exit(121)
        os.close(p2c_r); os.close(c2p_w)
        self.pid, self.wfd, self.rfd, self.rd = pid, p2c_w, c2p_r, LineReader(c2p_r)
        self.alive = True

    def send(self, obj):
        os.write(self.wfd, (obj if isinstance(obj, bytes) else json.dumps(obj).encode()) + b"\n")

    def recv(self, timeout=90):
        line = self.rd.readline(timeout)
        return None if line is None else json.loads(line)

    def kill(self):
        if not self.alive:
            return
        self.alive = False
        try: os.kill(self.pid, signal.SIGKILL)
        except ProcessLookupError: pass
        try: os.waitpid(self.pid, 0)
        except ChildProcessError: pass
        os.close(self.wfd); os.close(self.rfd)


class Pool:
    def __init__(self):
        self.procs = []
        self.forks = 0

    def get(self, i):
        while len(self.procs) <= i:
            self.procs.append(None)
        p = self.procs[i]
        if p is None or not p.alive:
            inherited = [fd for q in self.procs if q is not None and q.alive for fd in (q.wfd, q.rfd)]
            p = self.procs[i] = Proc(inherited)
            self.forks += 1
        return p

    def shutdown(self):
        for p in self.procs:
            if p is not None:
                p.kill()
        self.procs = []

POOL = Pool()


def damage_bytes(data, d):
    if d[0] == "trunc":
        return data[: d[1] % len(data)]
    if d[0] == "flip":
        i = d[1] % len(data)
        return data[:i] + bytes([data[i] ^ (1 << (d[2] % 8))]) + data[i + 1:]
    return data


def run_sched(ctx, case):
    try:
        return _run_sched(ctx, case)
    except BaseException:
        POOL.shutdown()              # workers may be in the middle of a job: start afresh
        raise


def _run_sched(ctx, case):
    A, BuildError, BobError = _bob()
    base = ctx.tmpdir()
    sp = case["spec"]
    spec = {"backend": "file", "flags": ["upload", "download"] + (["nofail"] if sp.get("nofail") else [])}
    if sp.get("fileMode") is not None: spec["fileMode"] = sp["fileMode"]
    if sp.get("dirMode") is not None: spec["directoryMode"] = sp["dirMode"]
    arch = os.path.join(base, "B")
    h = BID.hex()
    for d in [arch, os.path.join(arch, h[0:2]), os.path.join(arch, h[0:2], h[2:4])][:sp.get("predirs", 0)]:
        os.mkdir(d)
    name = name_of(arch, BID, ".tgz")
    dest, rel = os.path.dirname(name), os.path.relpath(name, arch)
    payloads = [Payload(base, "P%d" % i, ops, i) for i, ops in enumerate(case["payloads"][:case.get("u", 3)])]
    faults = list(case.get("faults") or [])
    jobs = []
    for i, p in enumerate(payloads):
        f = faults[i] if i < len(faults) else None
        jobs.append({"role": "uploader", "arch": arch, "spec": spec, "audit": p.audit, "root": p.root,
                     "fault": ([f[0], f[1], f[2]] if f[0] == "kill" else ["error", f[1], ERRNOS[f[2] % 3]]) if f else None})
    srcdata, mirror_idx = None, None
    if case.get("mirror"):
        M = Payload(base, "M", case["mirror"].get("ops", []), "M")
        srcdata = damage_bytes(plain_upload(base, M, "m"), case["mirror"]["damage"])
        srcarch = os.path.join(base, "A")
        ap = name_of(srcarch, BID, ".tgz")
        os.makedirs(os.path.dirname(ap))
        with open(ap, "wb") as fh:
            fh.write(srcdata)
        ws = os.path.join(base, "mws", "workspace")
        os.makedirs(os.path.dirname(ws))
        if case["mirror"]["damage"][0] == "nows":
            with open(ws, "w") as fh: fh.write("in the way")
            ws = os.path.join(ws, "sub")
        mirror_idx = len(payloads)
        payloads.append(M)
        jobs.append({"role": "mirror", "arch": arch, "src": srcarch, "audit": os.path.join(base, "mws", "audit.json.gz"),
                     "ws": ws, "spec": dict(spec, flags=spec["flags"] + ["cache"]), "fault": None})
    nwork = len(jobs)
    robs = os.path.join(base, "robs"); os.makedirs(robs)
    for j in range(case["readers"]):
        jobs.append({"role": "reader", "name": name, "out": robs, "idx": j, "chunk": [16384, 65536, 1 << 20][case.get("chunk", 1) % 3],
                     "max_iter": 16})
    if not jobs:
        return

    def ident(data):
        if srcdata is not None and data == srcdata:
            return mirror_idx
        r = identify(base, data, payloads)
        if r == mirror_idx:
            return ("invalid", "extracts to the mirrored payload but is not a byte copy of the source artifact")
        return r

    procs = [POOL.get(i) for i in range(len(jobs))]
    watch = Watch(dest)
    pending = {}                 # worker index -> op message it is blocked on
    done = {}                    # worker index -> done message | {"outcome": "killed"}
    granted = [dict() for _ in jobs]   # local op index -> global step
    reader_obs = []
    traces = [[] for _ in jobs]
    step = [0]

    def advance(i):
        """read the messages of worker i until it blocks on the next operation or finishes"""
        while True:
            m = procs[i].recv()
            if m is None:
                procs[i].kill()
                done[i] = {"outcome": "killed", "msg": "", "fired": ["kill"], "ops": traces[i]}
                pending.pop(i, None)
                if not (jobs[i].get("fault") and jobs[i]["fault"][0] == "kill"):
                    raise RuntimeError("worker %d (%s) died unexpectedly" % (i, jobs[i]["role"]))
                return
            if m["t"] == "op":
                pending[i] = m
                traces[i].append([m["kind"], m["arg"]])
                return
            if m["t"] == "obs":
                reader_obs.append((i, granted[i].get(m["k"], -1), m))
                continue
            if m["t"] == "done":
                pending.pop(i, None)
                if m["outcome"] == "harness-error":
                    raise RuntimeError("worker %d: %s" % (i, m["msg"]))
                done[i] = m
                return

    states = []                  # distinct successive states of the name as seen by the parent after every step
    last = [None]
    def describe_step():
        return "after step %d" % step[0]
    def observe(who):
        try:
            s = os.lstat(name)
            cur = (s.st_ino, s.st_size, s.st_mtime_ns, stat.S_IFMT(s.st_mode))
        except FileNotFoundError:
            cur = None
        if cur == last[0]:
            return
        v = None
        if cur is not None:
            with open(name, "rb") as fh:
                v = ident(fh.read())
        prev = states[-1] if states else None
        states.append((step[0], cur, v, who))
        last[0] = cur
        if isinstance(v, tuple):
            ctx.fail("incomplete-artifact:sched", "step %d (%s): %s (%d bytes) is not a complete valid artifact: %s; schedule so far: %s" %
                     (step[0], who, rel, cur[1], v[1], history()), case)
        if prev is not None and prev[1] is not None:
            ctx.fail("overwritten" if cur is not None else "artifact-removed",
                     "step %d (%s): the artifact present since step %d (payload %s, inode %d) %s; schedule: %s" %
                     (step[0], who, prev[0], (prev[2],), prev[1][0],
                      "is gone" if cur is None else "was replaced/modified: now payload %s, inode %d, %d bytes" % ((v,), cur[0], cur[1]), history()), case)

    log = []
    def history():
        return " ".join("%s%d:%s" % (jobs[i]["role"][0].upper(), i, kd) for (i, kd) in log[-40:])

    for i, j in enumerate(jobs):
        procs[i].send(j)
    for i in range(len(jobs)):
        advance(i)
    sched = case["schedule"]
    start = [(case.get("start") or [0] * 8)[i] if i < nwork else 0 for i in range(len(jobs))]   # late comers
    while pending:
        runnable = sorted(i for i in pending if step[0] >= start[i]) or sorted(pending)
        workers_left = [i for i in runnable if i < nwork]
        if sched:
            # the generated list is the schedule (used cyclically); uploaders/mirror weigh twice a reader
            slots = [i for i in runnable for _ in range(2 if i < nwork else 1)]
            pick = slots[sched[step[0] % len(sched)] % len(slots)]
        else:
            pick = workers_left[0] if workers_left else runnable[0]
        all_workers_done = all(i in done for i in range(nwork))
        granted[pick][pending[pick]["k"]] = step[0]
        log.append((pick, pending[pick]["kind"]))
        m = pending.pop(pick)
        procs[pick].send(b"f" if (pick >= nwork and all_workers_done) else b"g")
        advance(pick)
        step[0] += 1
        watch.attach()
        observe("%s%d %s" % (jobs[pick]["role"], pick, m["kind"]))
        if step[0] > 3000:
            raise RuntimeError("schedule does not terminate")
    watch.attach()
    events = [ev for (ev, nm) in watch.poll() if nm == os.path.basename(name)]
    watch.close()

    # ---- oracle on the whole run
    final = states[-1] if states else None
    present = final is not None and final[1] is not None
    pfinal = final[2] if present else None
    first_present = final[0] if present else None
    killed = [i for i in range(nwork) if done[i]["outcome"] == "killed"]
    def fault_kind(i):
        f = jobs[i].get("fault")
        if not f or "error" not in done[i].get("fired", []): return "-"
        mut = [o for o in done[i]["ops"] if o[0] not in PROBES]
        return mut[f[1]][0] if f[1] < len(mut) else "-"
    outcomes = ["%s%d=%s" % (jobs[i]["role"], i, done[i]["outcome"]) for i in range(nwork)]
    what = "outcomes %s; final: %s; schedule: %s" % (" ".join(outcomes), "payload %s" % (pfinal,) if present else "absent", history())
    for (i, gstep, m) in reader_obs:
        if m["v"] == "file":
            with open(m["file"], "rb") as fh:
                v = ident(fh.read())
            if isinstance(v, tuple):
                ctx.fail("reader-saw-incomplete", "reader %d (exists? at step %d) read an artifact that is not complete: %s; %s" % (i, gstep, v[1], what), case)
            if v != pfinal:
                ctx.fail("reader-saw-other-payload", "reader %d (step %d) read payload %s; %s" % (i, gstep, v, what), case)
        elif first_present is not None and gstep >= first_present:
            ctx.fail("reader-saw-absent-after-present", "reader %d looked at step %d and found the name %s, but it is present since step %d; %s" %
                     (i, gstep, m["v"], first_present, what), case)
    for i in range(nwork):
        o = done[i]["outcome"]
        if jobs[i]["role"] == "uploader" and o in ("ok", "exists") and not present:
            ctx.fail("reported-%s-but-absent" % o, "uploader %d reported %s; %s" % (i, o, what), case)
    if present and isinstance(pfinal, int) and done[pfinal]["outcome"] in ("error", "builderror", "exception"):
        if "error" in done[pfinal].get("fired", []):
            ctx.fail("failed-but-present:" + fault_kind(pfinal), "worker %d failed (%s) yet its artifact is published; %s" %
                     (pfinal, done[pfinal]["msg"], what), case)
        elif pfinal == mirror_idx:
            ctx.fail("cache-committed-though-download-failed", "the mirroring download failed (%s, damage %r) yet the cache holds its artifact; %s" %
                     (done[pfinal]["msg"], case["mirror"]["damage"], what), case)
        else:
            ctx.fail("failed-but-present:-", "worker %d failed (%s) without injected fault yet its artifact is published; %s" %
                     (pfinal, done[pfinal]["msg"], what), case)
    for i in range(nwork):
        if jobs[i]["role"] == "uploader" and done[i]["outcome"] in ("error", "builderror", "exception") and "error" not in done[i].get("fired", []):
            ctx.fail("upload-fails-without-fault", "uploader %d: %s; %s" % (i, done[i]["msg"], what), case)
    left = [x for x in (list_files(arch) if os.path.isdir(arch) else []) if x != rel]
    for x in left:
        owner = [i for i in range(nwork) if os.path.basename(x) in done[i].get("tmp", [])]
        if owner and fault_kind(owner[0]) != "unlink":     # a worker that was not killed left its temporary file behind
            ctx.label("info:tempfile-left:" + fault_kind(owner[0])); _ = ("%s left in the archive by worker %d (%s: %s); %s" %
                     (x, owner[0], done[owner[0]]["outcome"], done[owner[0]]["msg"], what), case)
    if len([x for x in left if not any(os.path.basename(x) in done[i].get("tmp", []) for i in range(nwork))]) > len(killed):
        ctx.label("info:tempfile-left:-")
    if [e for e in events if e in ("modify", "close_write")]:
        ctx.fail("written-in-place", "inotify saw %r on %s; %s" % (events, rel, what), case)
    if [e for e in events if e in ("delete", "moved_from")]:
        ctx.fail("artifact-name-unlinked", "inotify saw %r on %s; %s" % (events, rel, what), case)
    if len([e for e in events if e in ("create", "moved_to")]) > 1:
        ctx.fail("overwritten", "inotify saw %r on %s: an existing artifact was replaced; %s" % (events, rel, what), case)

    linkers = sum(1 for i in range(nwork) if any(o[0] in ("link", "replace", "rename") for o in traces[i]))
    seen = {}
    for (i, gstep, m) in reader_obs:
        seen.setdefault(i, set()).add("present" if m["v"] == "file" else "absent")
    both = any(len(v) == 2 for v in seen.values())
    nontriv = linkers >= 2 and both
    labels = ["sched:u%d:r%d%s" % (nwork - (1 if case.get("mirror") else 0), case["readers"], ":mirror" if case.get("mirror") else ""),
              "sched:publishers:%d" % linkers, "sched:final:%s" % ("present" if present else "absent"),
              "sched:reader-saw-both" if both else "sched:reader-one-sided"]
    labels += ["sched:outcome:" + done[i]["outcome"] for i in range(nwork)]
    ctx.extra["sched_steps"] = ctx.extra.get("sched_steps", 0) + step[0]
    ctx.extra["sched_forks"] = POOL.forks
    ctx.record(jhash(case), nontriv, labels,
               {"layer": "sched", "uploaders": nwork - (1 if case.get("mirror") else 0), "readers": case["readers"], "mirror": case.get("mirror"),
                "faults": faults, "steps": step[0], "interleaving": history(), "outcomes": outcomes,
                "final": "payload %s" % (pfinal,) if present else "absent",
                "reader_observations": [("r%d" % i, gstep, m["v"]) for (i, gstep, m) in reader_obs][:12]} if nontriv else None)
    vlib.rmtree(base)


# --------------------------------------------------------------------------------------- strategies
I = st.integers(0, 60)
payload_ops = st.lists(st.one_of(
    st.tuples(st.just("mkfile"), I, I, I, I, I), st.tuples(st.just("mkfile"), I, I, st.integers(0, 3), I, I),
    st.tuples(st.just("mkdir"), I, I, I), st.tuples(st.just("symlink"), I, I, I),
    st.tuples(st.just("hardlink"), I, I, I)).map(list), min_size=0, max_size=6)
spec_st = st.fixed_dictionaries({
    "nofail": st.booleans(),
    "fileMode": st.sampled_from([None, None, 0o640, 0o444]),
    "dirMode": st.sampled_from([None, None, 0o750]),
    "predirs": st.integers(0, 3)})
pair_st = st.tuples(I, I, st.integers(0, 4), st.integers(0, 2)).map(list)
single_case = st.fixed_dictionaries({
    "layer": st.just("single"),
    "kind": st.sampled_from(["package", "package", "package", "meta", "mirror"]),
    "ops": payload_ops, "xops": st.lists(st.tuples(st.just("mkfile"), I, I, st.integers(0, 3), I, I).map(list), max_size=2),
    "spec": spec_st,
    "errnos": st.lists(st.integers(0, 2), min_size=1, max_size=5),
    "sticky": st.booleans(),
    "pairs": st.lists(pair_st, min_size=2, max_size=8),
    "meta": st.fixed_dictionaries({"suffix": st.integers(0, 1),
                                   "old": st.one_of(st.none(), st.tuples(I, st.sampled_from([0, 1, 20, 20, 4096, 70000])).map(list)),
                                   "new": st.tuples(I, st.sampled_from([0, 1, 20, 20, 4097, 70001])).map(list)}),
    "mirror": st.fixed_dictionaries({"damage": st.one_of(
        st.just(["none"]), st.just(["none"]), st.tuples(st.just("trunc"), st.integers(0, 10**6)).map(list),
        st.tuples(st.just("flip"), st.integers(0, 10**6), st.integers(0, 7)).map(list), st.just(["nows"]))}),
})


fault_st = st.one_of(st.none(), st.none(), st.none(),
                     st.tuples(st.just("kill"), st.integers(0, 30), st.sampled_from(["before", "after", "mid"])).map(list),
                     st.tuples(st.just("error"), st.integers(0, 30), st.integers(0, 2)).map(list))
sched_case = st.fixed_dictionaries({
    "layer": st.just("sched"),
    "payloads": st.lists(payload_ops, min_size=3, max_size=3),
    "u": st.sampled_from([1, 2, 2, 3, 3]),
    "readers": st.integers(1, 2),
    "chunk": st.integers(0, 2),
    "spec": spec_st,
    "faults": st.lists(fault_st, min_size=3, max_size=3),
    "mirror": st.one_of(st.none(), st.none(), st.fixed_dictionaries({
        "ops": payload_ops, "damage": st.one_of(
            st.just(["none"]), st.just(["none"]), st.tuples(st.just("trunc"), st.integers(0, 10**6)).map(list),
            st.tuples(st.just("flip"), st.integers(0, 10**6), st.integers(0, 7)).map(list), st.just(["nows"]))})),
    "schedule": st.lists(st.integers(0, 11), min_size=20, max_size=120),
    "start": st.lists(st.sampled_from([0, 0, 0, 0, 0, 0, 3, 8, 15, 30, 60]), min_size=4, max_size=4),
})


def shard(ctx):
    from vlib import bobproc
    bobproc.warm()
    t_all = ctx.deadline - ctx.t0
    try:
        ctx.deadline = ctx.t0 + t_all * 0.45
        run_hypothesis(ctx, single_case, lambda c: run_case(ctx, c), ctx.n(2400, 24000), shrink=False, salt="single",
                       minimize=("ops", "xops"), max_rootcauses=8)
        ctx.deadline = ctx.t0 + t_all
        run_hypothesis(ctx, sched_case, lambda c: run_case(ctx, c), ctx.n(40000, 400000), shrink=False, salt="sched",
                       minimize=("schedule",), max_rootcauses=8)
    finally:
        POOL.shutdown()


def run_case(ctx, case):
    if case.get("layer") == "sched":
        return run_sched(ctx, case)
    return enumerate_single(ctx, case)


def replay(ctx, case):
    try:
        run_case(ctx, case)
    finally:
        POOL.shutdown()


# known findings: none open.  (A temporary file that a FAILED - not killed - upload leaves behind when close()/chmod()/
# replace() raise is reported as class "info:tempfile-left:*" only: the property speaks about the artifact name.)
FINDINGS = {}
