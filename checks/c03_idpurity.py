"""C03 - Package ids are pure, location independent and long-term stable."""
import os, sys, json, copy, asyncio, hashlib, subprocess, shutil
from hypothesis import strategies as st

import vlib
from vlib import projgen, pkgdump, bobproc, scripts
from vlib.runner import run_hypothesis, Violation, jhash

PROP = "C03"
LEVEL = "exploration"
RULE = ("ids(P) = {package stack x step kind -> (Variant-Id, Build-Id)} of a generated project (classes, tools incl. "
        "weak/fingerprinted ones, multiPackages, optional sandbox provider, fingerprinted recipes), Build-Ids computed "
        "with the builder's own StepIR.getDigestCoro(relaxTools=True) over synthetic source hashes. Metamorphic "
        "relations: ids equal after re-rendering at another absolute path with reversed file creation order and shifted "
        "timestamps; after a second parse in the same (cache-warm) directory; in child processes with other "
        "PYTHONHASHSEED values; after adding further root recipes that reach inner recipes first/again (parse and "
        "visiting order); after id-irrelevant single edits (meta environment, weak variable values, audit files, "
        "build/package/tool netAccess, jobServer); with sandboxing on vs off for packages that have no fingerprinted "
        "step in their dependency closure; Build-Ids (not Variant-Ids) equal when only the variant of a weakly used "
        "tool changes. A control edit (strong variable / script) must change ids, so the dump is sensitive. Golden: the "
        "shipped reference project test/black-box/stable-variant-ids must reproduce its five recorded spec files. "
        "Non-trivial: project with a tool and a recipe reached on >=2 paths in which the control edit changed an id; "
        "distinct = hash of the case.")
ASSUMPTIONS = ["source hashes are synthetic (function of the checkout Variant-Id); host fingerprints are empty"]
TIME_BUDGET = {"quick": 240, "thorough": 1500}
BATCH = 8

def ids_of(project, model, sandbox=False, with_bid=True, src_by_name=False):
    """-> {"stack|kind": [vid, bid]} or None if the project is rejected"""
    from bob.errors import BobError
    with pkgdump.in_dir(project):
        try:
            rs, ps = pkgdump.load(project, model.get("defines"), sandbox=sandbox)
            root = ps.getRootPackage()
        except BobError as e:
            return None
        out = {}
        bids = BuildIds(rs, src_by_name) if with_bid else None
        for stack, pkg, via in pkgdump.walk(root, 1500):
            if not stack:
                continue
            for step in (pkg.getCheckoutStep(), pkg.getBuildStep(), pkg.getPackageStep()):
                if step.isValid():
                    deps = [a.getVariantId().hex() for a in step.getArguments() if a.isValid()] + \
                           [t.getStep().getVariantId().hex() for t in step.getTools().values()]
                    out["%s|%s" % ("/".join(stack), step.getLabel())] = [step.getVariantId().hex(),
                                                                          bids.of(step).hex() if bids else None, deps]
        return out

class BuildIds:
    def __init__(self, rs, src_by_name=False):
        # src_by_name: the (synthetic) source hash is a function of the package name instead of the checkout
        # Variant-Id - used where two projects are expected to check out identical sources under different ids
        self.src_by_name = src_by_name
        from bob.cmds.build.build import ExecutableStep, LazyIR
        self.ES = ExecutableStep
        self.graph = LazyIR
        self.loop = asyncio.new_event_loop()
    def of(self, step):
        es = self.ES.fromStep(step, self.graph)
        try:
            return self.loop.run_until_complete(self._bid(es))
        finally:
            pass
    async def _bid(self, es):
        if es.isCheckoutStep():
            if self.src_by_name:
                return hashlib.sha1(b"src" + es.getPackage().getName().encode()).digest()
            return hashlib.sha1(b"src" + es.getVariantId()).digest()
        async def calc(steps):
            return [await self._bid(s) for s in steps]
        # the host fingerprint is replaced by a digest of the fingerprint script the step would run (empty if the step
        # is not fingerprinted): which script runs is part of what the Build-Id is a function of
        fp = hashlib.sha1(b"fp" + (es._getFingerprintScript() or "").encode()).digest() if es._isFingerprinted() else b""
        return await es.getDigestCoro(calc, fingerprint=fp, platform=b"verif", relaxTools=True)
    def close(self):
        self.loop.close()

def render_permuted(model, d, clock_shift):
    """same content, written in reverse order, other timestamps"""
    tmp = d + ".stage"
    os.makedirs(tmp)
    projgen.render(model, tmp, clock=model.get("clock", 0) + clock_shift)
    files = []
    for dp, dn, fn in os.walk(tmp):
        for f in fn:
            files.append(os.path.relpath(os.path.join(dp, f), tmp))
    os.makedirs(d)
    for n, rel in enumerate(sorted(files, reverse=True)):
        dst = os.path.join(d, rel)
        os.makedirs(os.path.dirname(dst), exist_ok=True)
        shutil.copyfile(os.path.join(tmp, rel), dst)
        t = projgen.T0 + (model.get("clock", 0) + clock_shift) * 10**9 + n * 10**7
        os.utime(dst, ns=(t, t))
    os.makedirs(os.path.join(d, "recipes"), exist_ok=True)
    shutil.rmtree(tmp)

# id-irrelevant edits ---------------------------------------------------------------------
def irrelevant_variants(model, picks):
    out = []
    bodies = projgen._bodies(model)
    for (kind, a, b) in picks:
        m = copy.deepcopy(model)
        bs = projgen._bodies(m)
        lab, body, ri = bs[a % len(bs)]
        if kind == "meta":
            body.setdefault("metaEnvironment", {})["M0"] = "changed%d" % b
        elif kind == "weakvar":
            body.setdefault("environment", {})[scripts.WEAKVARS[b % 2]] = "weak%d" % b
            m["defaults"].setdefault("environment", {})[scripts.WEAKVARS[(b + 1) % 2]] = "dflt%d" % b
        elif kind == "netaccess":
            body["buildNetAccess"] = not body.get("buildNetAccess", False)
            body["packageNetAccess"] = bool(b % 2)
        elif kind == "jobserver":
            body["jobServer"] = not body.get("jobServer", False)
        elif kind == "audit":
            body["auditFiles"] = {"RES": "result.txt"} if not body.get("auditFiles") else {}
        elif kind == "toolnet":
            prov = [(l, bd) for l, bd, _ in bs if bd.get("provideTools")]
            if not prov:
                continue
            l, bd = prov[a % len(prov)]
            t = sorted(bd["provideTools"])[b % len(bd["provideTools"])]
            bd["provideTools"][t]["netAccess"] = not bd["provideTools"][t].get("netAccess", False)
            lab = l
        out.append(("%s of %s" % (kind, lab), m))
    return out

def extra_roots(model, picks):
    """further root recipes that reach inner packages (before / after r0 in parse order)"""
    m = copy.deepcopy(model)
    pk = projgen.package_names(m)
    for n, (first, which, envv) in enumerate(picks):
        name = ("aa-extra%d" if first else "zz-extra%d") % n
        dep = {"name": pk[which % len(pk)], "use": ["result", "deps"], "forward": False,
               "env": ({} if envv is None else {scripts.VARS[envv % 5]: None if envv % 3 == 0 else "ex%d" % envv}),
               "if": None, "checkoutDep": False, "tools": None}
        dep["env"] = {k: v for k, v in dep["env"].items() if v is not None}
        body = {"root": True, "inherit": [], "depends": [dep], "environment": {}, "privateEnvironment": {}, "metaEnvironment": {},
                "provideVars": {}, "provideDeps": [], "provideTools": {}, "checkoutDeterministic": False, "import": False,
                "shared": False, "relocatable": None, "tooldirs": False, "fp": False,
                "steps": {"checkout": projgen._empty_step(), "build": dict(projgen._empty_step(), script=990 + n),
                          "package": dict(projgen._empty_step(), script=995 + n)}}
        m["recipes"].append({"name": name, "body": body, "multi": None})
    return m

def weaktool_twin(model, where, fragA, fragB):
    """two copies of the project that differ only in the variant of a weakly used tool's provider"""
    outs = []
    for frag in (fragA, fragB):
        m = copy.deepcopy(model)
        E = projgen._empty_step
        prov = {"root": False, "inherit": [], "depends": [], "environment": {}, "privateEnvironment": {}, "metaEnvironment": {},
                "provideVars": {}, "provideDeps": [], "provideTools": {"w0": {"path": ".", "libs": [], "environment": {}}},
                "checkoutDeterministic": False, "import": False, "shared": False, "relocatable": None, "tooldirs": True, "fp": False,
                "steps": {"checkout": E(), "build": dict(E(), script=800 + frag), "package": dict(E(), script=850)}}
        cons = copy.deepcopy(prov)
        cons["provideTools"] = {}; cons["tooldirs"] = False
        cons["depends"] = [{"name": "wt-prov", "use": ["tools"], "forward": False, "env": {}, "if": None, "checkoutDep": False, "tools": None}]
        cons["steps"] = {"checkout": dict(E(), script=860) if where == "checkout" else E(), "build": dict(E(), script=861), "package": dict(E(), script=862)}
        cons["steps"][where]["toolsWeak"] = ["w0"]
        m["recipes"].append({"name": "wt-cons", "body": cons, "multi": None})
        m["recipes"].append({"name": "wt-prov", "body": prov, "multi": None})
        m["recipes"][0]["body"]["depends"].append({"name": "wt-cons", "use": ["result"], "forward": False, "env": {}, "if": None,
                                                   "checkoutDep": False, "tools": None})
        outs.append(m)
    return outs

def with_sandbox_provider(model, pos=0):
    """pos: position of the sandbox dependency among the dependencies of the root recipe; only the dependencies that
    follow it are built inside the sandbox (a package may then be reachable inside and outside)"""
    m = copy.deepcopy(model)
    E = projgen._empty_step
    sb = {"root": False, "inherit": [], "depends": [], "environment": {}, "privateEnvironment": {}, "metaEnvironment": {},
          "provideVars": {}, "provideDeps": [], "provideTools": {}, "provideSandbox": {"paths": ["/usr/bin", "/bin"]},
          "checkoutDeterministic": False, "import": False, "shared": False, "relocatable": None, "tooldirs": False, "fp": False,
          "steps": {"checkout": E(), "build": dict(E(), script=870), "package": dict(E(), script=871)}}
    m["recipes"].append({"name": "sbox", "body": sb, "multi": None})
    deps = m["recipes"][0]["body"]["depends"]
    deps.insert(0 if pos is True else min(int(pos), len(deps)), {"name": "sbox", "use": ["sandbox"], "forward": True, "env": {}, "if": None,
                                                  "checkoutDep": False, "tools": None})
    return m

def with_fp_tools(model):
    """a recipe that uses two tools in different steps, one of them fingerprinted: the fingerprint of the build step must
    only follow the tools the build step uses"""
    m = copy.deepcopy(model)
    E = projgen._empty_step
    def body(**kw):
        b = {"root": False, "inherit": [], "depends": [], "environment": {}, "privateEnvironment": {}, "metaEnvironment": {},
             "provideVars": {}, "provideDeps": [], "provideTools": {}, "checkoutDeterministic": False, "import": False,
             "shared": False, "relocatable": None, "tooldirs": False, "fp": False,
             "steps": {"checkout": E(), "build": E(), "package": E()}}
        b.update(kw)
        return b
    def dep(name, use):
        return {"name": name, "use": use, "forward": False, "env": {}, "if": None, "checkoutDep": False, "tools": None}
    fa = body(tooldirs=True, provideTools={"t0": {"path": ".", "libs": [], "fingerprint": True}})
    fa["steps"]["package"]["script"] = 880
    fb = body(tooldirs=True, provideTools={"t1": {"path": ".", "libs": []}})
    fb["steps"]["package"]["script"] = 881
    fc = body(depends=[dep("fa", ["tools"]), dep("fb", ["tools"])])
    fc["steps"]["build"] = dict(E(), script=882, tools=["t1"])
    fc["steps"]["package"] = dict(E(), script=883, tools=["t0"])
    m["recipes"] += [{"name": "fc", "body": fc, "multi": None}, {"name": "fa", "body": fa, "multi": None},
                     {"name": "fb", "body": fb, "multi": None}]
    m["recipes"][0]["body"]["depends"].append(dep("fc", ["result"]))
    return m

def fp_recipes(model):
    """recipe names that are fingerprinted themselves or use a fingerprinted tool"""
    out = set()
    fptools = set()
    for lab, b, _ in projgen._bodies(model):
        for t, spec in (b.get("provideTools") or {}).items():
            if spec.get("fingerprint"): fptools.add(t)
    for r in model["recipes"]:
        for b in [r["body"]] + list((r.get("multi") or {}).values()):
            used = set()
            for sp in (b.get("steps") or {}).values():
                used |= set(sp.get("tools") or []) | set(sp.get("toolsWeak") or [])
            if b.get("fp") or (used & fptools):
                out.add(r["name"])
    return out

HASHSEED_SCRIPT = r'''
import sys, json
sys.path.insert(0, sys.argv[1]); sys.path.insert(0, sys.argv[2])
import vlib; vlib.use_repo()
from checks import c03_idpurity as C
model = json.load(open(sys.argv[3]))
print(json.dumps(C.ids_of(sys.argv[4], model, sandbox=(sys.argv[5] == "1"))))
'''

def ids_in_child(project, model, sandbox, seed, base):
    mp = os.path.join(base, "model.json")
    with open(mp, "w") as f:
        json.dump(model, f)
    env = dict(os.environ, PYTHONHASHSEED=str(seed), VERIF_REPO=vlib.REPO)
    r = subprocess.run([sys.executable, "-c", HASHSEED_SCRIPT, vlib.PYM, vlib.VERIF_DIR, mp, project, "1" if sandbox else "0"],
                       stdout=subprocess.PIPE, stderr=subprocess.PIPE, env=env, cwd=project, timeout=300)
    if r.returncode != 0:
        raise RuntimeError("hash-seed child failed: " + r.stderr.decode()[-500:])
    return json.loads(r.stdout.decode().strip().splitlines()[-1])

def diff_ids(a, b, col=None):
    out = []
    for k in sorted(set(a) | set(b)):
        va, vb = a.get(k), b.get(k)
        va, vb = va and va[:2], vb and vb[:2]
        if col is not None and va and vb:
            va, vb = va[col], vb[col]
        if va != vb:
            out.append((k, va, vb))
    return out

def interning_shape(a, b):
    """True if every difference sits in a sub-tree whose parent package is unchanged and does not consume it:
    packages with identical results are merged (Recipe.__corePackagesById) and the merged package carries the
    dependency list of whoever was visited first - the listed known finding"""
    d = diff_ids(a, b)
    if not d:
        return False
    for k, va, vb in d:
        stack = k.split("|")[0].split("/")
        ok = False
        for n in range(len(stack) - 1, 0, -1):
            anc = "/".join(stack[:n])
            same = all((a.get("%s|%s" % (anc, kind)) or [None])[:2] == (b.get("%s|%s" % (anc, kind)) or [None])[:2]
                       for kind in ("src", "build", "dist")) and any(("%s|%s" % (anc, kind)) in a for kind in ("src", "build", "dist"))
            if not same:
                continue
            child = "/".join(stack[:n + 1])
            child_vids = {x[0] for x in (a.get(child + "|dist"), b.get(child + "|dist")) if x}
            used = set()
            for kind in ("src", "build", "dist"):
                for x in (a.get("%s|%s" % (anc, kind)), b.get("%s|%s" % (anc, kind))):
                    if x: used |= set(x[2])
            if not (child_vids & used):
                ok = True
                break
        if not ok:
            return False
    return True

def run_case(ctx, case):
    model = case["model"]
    if case.get("fp"):
        model = copy.deepcopy(model)
        bs = projgen._bodies(model)
        for (a, kind) in case["fp"]:
            lab, body, ri = bs[a % len(bs)]
            if kind == 0 and (body.get("steps") or {}).get("build", {}).get("script") is not None:
                body["fp"] = True
            elif body.get("provideTools"):
                t = sorted(body["provideTools"])[0]
                body["provideTools"][t]["fingerprint"] = True
    if case.get("fptools"):
        model = with_fp_tools(model)
    if case.get("sandbox"):
        model = with_sandbox_provider(model)
    base = ctx.tmpdir()
    labels = set()
    try:
        A = os.path.join(base, "a")
        os.makedirs(A)
        projgen.render(model, A)
        ref = {sb: ids_of(A, model, sb) for sb in (False, True)}
        if ref[False] is None:
            ctx.label("project-rejected")
            return
        def same(what, got, sb, cols=None):
            if got is None and ref[sb] is not None:
                ctx.fail("transformed-project-rejected", "%s: rejected although the original parses" % what, case)
            if ref[sb] is None:
                if got is not None:
                    ctx.fail("transformed-project-accepted", "%s: accepted although the original is rejected" % what, case)
                return
            d = diff_ids(ref[sb], got, cols)
            if d:
                ctx.fail("ids-changed:" + what.split(":")[0].split(" of ")[0], "%s (sandbox=%s) changed ids: %r" % (what, sb, d[:3]),
                         dict(case, interning_shape=interning_shape(ref[sb], got)))
        # T1-T3 location, creation order, timestamps
        B = os.path.join(base, "somewhere", "much", "deeper", "b")
        os.makedirs(os.path.dirname(B))
        render_permuted(model, B, 5000)
        for sb in (False, True):
            same("relocated+reordered+retimed", ids_of(B, model, sb), sb)
        # T5 second parse with warm caches in the same directory
        for sb in (False, True):
            same("second-parse", ids_of(A, model, sb), sb)
        # T4 other hash seeds (subprocess; sampled)
        for seed in case.get("hashseeds") or []:
            labels.add("hashseed")
            for f in os.listdir(B):          # no persistent package / tree cache written under the parent's hash seed
                if f.startswith(".bob-"):
                    os.unlink(os.path.join(B, f))
            same("hashseed:%s" % seed, ids_in_child(B, model, True, seed, base), True)
        # T6 extra roots: ids below r0 must not move
        if case.get("roots"):
            m2 = extra_roots(model, case["roots"])
            C_ = os.path.join(base, "c"); os.makedirs(C_)
            projgen.render(m2, C_)
            for sb in (False, True):
                got = ids_of(C_, m2, sb)
                if got is not None:
                    got = {k: v for k, v in got.items() if k.split("/")[0].split("|")[0] == "r0"}
                    same("extra-roots", got, sb)
                    labels.add("extra-roots")
                else:
                    labels.add("extra-roots-rejected")
        # T7 irrelevant edits
        for n, (what, m3) in enumerate(irrelevant_variants(model, case.get("irrelevant") or [])):
            D = os.path.join(base, "d%d" % n); os.makedirs(D)
            projgen.render(m3, D)
            same("irrelevant:" + what, ids_of(D, m3, False), False)
            labels.add("irrelevant:" + what.split(" of ")[0])
        # T8 sandbox on/off
        fp = fp_recipes(model)
        if "is-sandbox-enabled" in json.dumps(model):
            labels.add("queries-sandbox-state")
        elif ref[True] is not None:
            from_model = {r["name"]: r for r in model["recipes"]}
            sens = set()
            # closure: a stack is sensitive if any package on or below it is fingerprinted -> conservative: whole
            # stacks that contain a fingerprinted recipe below them are found through the ids of their arguments;
            # we only compare stacks whose own recipe and all recipes of the project reachable from it are not fp
            reach = reachable_recipes(model)
            for k in ref[False]:
                stack = k.split("|")[0]
                rname = stack.split("/")[-1]
                rname = rname if rname in from_model else rname.rsplit("-", 1)[0]
                if (reach.get(rname, set()) | {rname}) & fp:
                    continue
                a, b = ref[False][k], (ref[True] or {}).get(k)
                if b is None or a != b:
                    ctx.fail("ids-depend-on-sandbox", "%s: ids with sandboxing off %r / on %r although no fingerprinted step is "
                             "in its closure" % (k, a, b), case)
            labels.add("sandbox-compared")
        # Build-Id ignores the variant of a weakly used tool
        if case.get("weaktool"):
            where, fa, fb = case["weaktool"]
            ma, mb = weaktool_twin(model, ["checkout", "build", "package"][where % 3], fa % 5, (fa + 1 + fb % 4) % 5)
            ia = ib = None
            for tag, mm in (("wa", ma), ("wb", mb)):
                W = os.path.join(base, tag); os.makedirs(W)
                projgen.render(mm, W)
                got = ids_of(W, mm, False, src_by_name=True)
                if tag == "wa": ia = got
                else: ib = got
            if ia and ib:
                labels.add("weaktool")
                for k in ia:
                    if k.split("|")[0].endswith("/wt-cons") and k in ib and not k.endswith("|src"):
                        if ia[k][1] != ib[k][1]:
                            ctx.fail("buildid-depends-on-weak-tool-variant", "%s: Build-Id %s vs %s when only the variant of the "
                                     "weakly used tool w0 (declared in %sToolsWeak) differs" % (k, ia[k][1], ib[k][1],
                                     ["checkout", "build", "package"][where % 3]), case)
                    if k.startswith("r0/wt-cons|") and ia[k][0] == ib[k][0] and not k.endswith("|src") and where % 3 != 0:
                        pass
        # control: an id-relevant edit must be visible
        ctrl = copy.deepcopy(model)
        cb = projgen._bodies(ctrl)[0][1]
        cb["steps"]["build"]["script"] = 777
        E_ = os.path.join(base, "e"); os.makedirs(E_)
        projgen.render(ctrl, E_)
        got = ids_of(E_, ctrl, False)
        sensitive = got is not None and bool(diff_ids(ref[False], got))
        if not sensitive:
            ctx.fail("dump-insensitive", "changing the root's build script did not change any id", case)
        stacks = [k.split("|")[0] for k in ref[False]]
        multi = len({s.split("/")[-1] for s in stacks}) < len(set(stacks))
        has_tool = any(b.get("provideTools") for _, b, _ in projgen._bodies(model))
        ctx.record(jhash(case), sensitive and multi and has_tool, sorted(labels) + (["multi-path"] if multi else []) +
                   (["tool"] if has_tool else []) + (["fp"] if fp else []) + (["sandbox-provider"] if case.get("sandbox") else []),
                   {"recipes": len(model["recipes"]), "steps": len(ref[False]), "irrelevant": [k for k, _, _ in case.get("irrelevant") or []],
                    "roots": case.get("roots"), "hashseeds": case.get("hashseeds")})
    finally:
        vlib.rmtree(base)

def reachable_recipes(model):
    """recipe -> set of recipes reachable through depends"""
    direct = {}
    names = {r["name"] for r in model["recipes"]}
    for r in model["recipes"]:
        deps = set()
        for b in [r["body"]] + list((r.get("multi") or {}).values()):
            for d in b.get("depends", []):
                n = d["name"] if d["name"] in names else d["name"].rsplit("-", 1)[0]
                deps.add(n)
        direct[r["name"]] = deps
    out = {}
    for r in direct:
        seen, todo = set(), list(direct[r])
        while todo:
            x = todo.pop()
            if x in seen: continue
            seen.add(x); todo += list(direct.get(x, ()))
        out[r] = seen
    return out

def golden(ctx):
    """the shipped reference project must reproduce its recorded ids"""
    src = os.path.join(vlib.REPO, "test", "black-box", "stable-variant-ids")
    base = ctx.tmpdir()
    try:
        d = os.path.join(base, "g")
        shutil.copytree(src, d)
        os.makedirs(os.path.join(d, "output"), exist_ok=True)
        for name in ("checkouts", "env", "include", "sandbox", "tools"):
            r = bobproc.direct(d, ["project", "-n", "--sandbox", "dumper", "root-" + name, "output/%s.txt" % name])
            case = {"golden": name}
            if r.rc != 0:
                ctx.fail("golden-failed", "bob project dumper root-%s failed: %s" % (name, r.err[-500:]), case)
            a = open(os.path.join(d, "output", name + ".txt")).read().split()
            b = open(os.path.join(d, "specs", name + ".txt")).read().split()
            ctx.record("golden:" + name, True, ["golden"], {"golden": name, "tokens": len(b)})
            if a != b:
                n = next((i for i, (x, y) in enumerate(zip(a, b)) if x != y), min(len(a), len(b)))
                ctx.fail("golden-ids-changed", "reference project root-%s no longer reproduces its recorded ids (first difference at "
                         "token %d: %r vs recorded %r)" % (name, n, a[n:n+3], b[n:n+3]), case)
    finally:
        vlib.rmtree(base)

I = st.integers(0, 30)
def case_st(quick):
    return st.fixed_dictionaries({
        "model": projgen.model_st(3, 6 if quick else 7, richness=1),
        "fp": st.lists(st.tuples(I, st.integers(0, 1)).map(list), max_size=2),
        "sandbox": st.booleans(),
        "roots": st.lists(st.tuples(st.booleans(), I, st.one_of(st.none(), I)).map(list), max_size=2),
        "irrelevant": st.lists(st.tuples(st.sampled_from(["meta", "weakvar", "netaccess", "jobserver", "audit", "toolnet"]), I, I).map(list),
                               min_size=1, max_size=3),
        "fptools": st.sampled_from([False, False, True]),
        "hashseeds": st.one_of(st.just([]), st.just([]), st.just([]), st.just([]), st.just([]), st.lists(st.sampled_from([1, 2, 3, 5, 7, 11]), min_size=1, max_size=1)),
        "weaktool": st.one_of(st.none(), st.tuples(I, I, I).map(list)),
    })

def shard(ctx):
    if ctx.shard == 0:
        golden(ctx)
    run_hypothesis(ctx, case_st(ctx.quick()), lambda c: run_case(ctx, c), ctx.n(1200, 8000), shrink=False)

def replay(ctx, case):
    if "golden" in case:
        golden(ctx)
    else:
        run_case(ctx, case)

def _f_interning(sig, case, detail):
    """identical packages are merged; the merged package shows the dependencies of the first visitor"""
    return sig.startswith("ids-changed:extra-roots") and bool(case.get("interning_shape"))
FINDINGS = {"C03-merged-package-keeps-first-visitors-subtree": _f_interning}
