"""C20 - Jenkins job graph is acyclic, complete and faithful."""
import os, re, copy, json, base64, lzma, asyncio, hashlib
from hypothesis import strategies as st

import vlib
from vlib import projgen, pkgdump
from vlib.runner import run_hypothesis, Violation, jhash

PROP = "C20"
LEVEL = "exploration"
RULE = ("Generated projects (multiPackages whose sub-packages depend on each other through other recipes, several "
        "variants per recipe through per-dependency environments, tools/sandbox whose providers depend on sibling "
        "variants, recipe names that fold together under Jenkins' job-name sanitising such as lib.x/lib_x/LIB.x) with "
        "generated Jenkins configuration (1-3 roots, prefix, isolate regex, sandbox mode, shortdescription). "
        "genJenkinsJobs() is evaluated in-process. Oracles: own DFS finds no cycle over getUpstreamJobs() and "
        "genJenkinsBuildOrder() does not raise; every package variant (Jenkins variant id) reachable from the roots "
        "by an own traversal (arguments, tools, sandbox) is a package step of exactly one job; for every step built in "
        "job J each valid dependency is built in J or in an upstream job of J; the job spec pushed through the real "
        "encode/decode chain (dumpJobSpec -> a85/lzma/json -> PartialIR) reproduces, for every root of the spec, the "
        "live objects' Variant-Id, workspace path, scripts, environment, tools, arguments, sandbox and the Build-Id "
        "computed from identical dependency ids. Non-trivial: >=2 variants share a job or a tool/sandbox provider is a "
        "sibling variant of a consumer, with >=3 jobs; distinct = hash of the case.")
ASSUMPTIONS = ["no Jenkins server is contacted: only the job calculation and the embedded job specification are checked"]
TIME_BUDGET = {"quick": 240, "thorough": 1500}
BATCH = 8

FOLD = ["lib.x", "lib_x", "LIB.x", "Lib_X"]

def rename(model, mapping):
    """rename recipes (and everything that refers to them)"""
    m = copy.deepcopy(model)
    def nm(x):
        for old, new in mapping.items():
            if x == old: return new
            if x.startswith(old + "-"): return new + x[len(old):]
        return x
    for r in m["recipes"]:
        r["name"] = nm(r["name"])
        for b in [r["body"]] + list((r.get("multi") or {}).values()):
            for d in b.get("depends", []):
                d["name"] = nm(d["name"])
            b["provideDeps"] = [nm(x) for x in b.get("provideDeps", [])]
    m["files"] = {("/".join([nm(k.split("/")[0])] + k.split("/")[1:])): v for k, v in m["files"].items()}
    return m

def jvid(step):
    from bob.cmds.jenkins.intermediate import getJenkinsVariantId
    return getJenkinsVariantId(step)

def reachable_variants(roots):
    """own traversal: package steps reachable from the root package steps via arguments, tools, sandbox"""
    seen = {}
    todo = list(roots)
    while todo:
        s = todo.pop()
        if not s.isValid():
            continue
        key = (jvid(s), s.getLabel())
        if key in seen:
            continue
        seen[key] = s
        for d in s.getAllDepSteps():
            todo.append(d)
    return seen

def ir_dump(es, depth=0):
    """dump through the StepIR interface (same for live ExecutableStep and decoded PartialStep)"""
    d = {"vid": es.getVariantId().hex(), "valid": es.isValid()}
    if not es.isValid():
        return d
    d["ws"] = es.getWorkspacePath()
    d.update({
        "kind": "src" if es.isCheckoutStep() else "build" if es.isBuildStep() else "dist",
        "digestScript": es.getDigestScript(), "setup": es.getSetupScript(), "main": es.getMainScript(),
        "env": dict(es.getEnv()), "paths": list(es.getPaths()), "libs": list(es.getLibraryPaths()),
        "tools": {n: (t.getPath(), list(t.getLibs()), t.getStep().getVariantId().hex()) for n, t in sorted(es.getTools().items())},
        "args": [(a.getVariantId().hex(), a.getWorkspacePath()) if a.isValid() else None for a in es.getArguments()],
        "shared": es.isShared(), "relocatable": es.isRelocatable(),
    })
    sb = es.getSandbox()
    d["sandbox"] = None if sb is None else (sb.getStep().getVariantId().hex(), list(sb.getPaths()), [list(m) for m in sb.getMounts()])
    if es.isCheckoutStep():
        d["scmdirs"] = sorted(es.getScmDirectories().keys()) if hasattr(es, "getScmDirectories") else None
    return d

class Bids:
    def __init__(self):
        self.loop = asyncio.new_event_loop()
    def of(self, es):
        return self.loop.run_until_complete(self._bid(es, True))
    async def _bid(self, es, top=False):
        # dependency ids are *supplied* (on the build node they are read from files): a function of the Variant-Id
        if es.isCheckoutStep() or not top:
            return hashlib.sha1(b"dep" + es.getVariantId()).digest()
        async def calc(steps):
            return [await self._bid(s) for s in steps]
        return await es.getDigestCoro(calc, fingerprint=b"", platform=b"verif", relaxTools=True)

def run_case(ctx, case):
    import bob.state
    from bob.errors import BobError
    from bob.state import BobState, JenkinsConfig
    from bob.input import RecipeSet
    from bob.cmds.jenkins.jenkins import genJenkinsJobs, genJenkinsBuildOrder, jenkinsNameFormatter
    from bob.cmds.jenkins.intermediate import PartialIR
    from bob.cmds.build.build import ExecutableStep, LazyIR
    model = case["model"]
    if case.get("cross") is not None:
        model = projgen.add_multi_cross(model, case["cross"])
    if case.get("sbprovider"):
        from checks.c03_idpurity import with_sandbox_provider
        model = with_sandbox_provider(model, case["sbprovider"])
    if case.get("fold"):
        names = [r["name"] for r in model["recipes"][1:]]
        mapping = {}
        for i, idx in enumerate(case["fold"]):
            if names:
                mapping[names[idx % len(names)]] = FOLD[i % len(FOLD)]
        model = rename(model, mapping)
    base = ctx.tmpdir()
    d = os.path.join(base, "p")
    os.makedirs(d)
    try:
        projgen.render(model, d)
        with pkgdump.in_dir(d):
            try:
                cfg = JenkinsConfig("http://localhost:1/", "uuid")
                pk = projgen.package_names(model)
                cfg.roots = sorted({"//" + pk[i % len(pk)] for i in case["roots"]} | {"r0"})
                cfg.prefix = case["prefix"]
                cfg.defines = {k: v for k, v in (model.get("defines") or {}).items() if v is not None}
                cfg.sandbox = case["sandboxmode"]
                cfg.shortdescription = case["short"]
                if case.get("isolate"):
                    cfg.setOption("jobs.isolate", case["isolate"], lambda m: None)
                BobState().addJenkins("j", cfg)
                rs = RecipeSet()
                rs.defineHook('jenkinsNameFormatter', jenkinsNameFormatter)
                try:
                    jobs = genJenkinsJobs(rs, "j")
                except BobError as e:
                    ctx.label("project-rejected")
                    return
                except Exception as e:
                    import traceback
                    ctx.fail("job-calculation-crashes:" + type(e).__name__, "genJenkinsJobs raised %s: %s\n%s" %
                             (type(e).__name__, e, "".join(traceback.format_tb(e.__traceback__)[-3:])), case)
                    return
                where = "roots %r prefix %r isolate %r sandbox %r" % (cfg.roots, cfg.prefix, case.get("isolate"), case["sandboxmode"])
                # (1) acyclic
                up = {n: set(j.getUpstreamJobs()) for n, j in jobs.items()}
                state = {}
                def dfs(n, stack):
                    if state.get(n) == 1:
                        return stack[stack.index(n):] + [n]
                    if state.get(n) == 2:
                        return None
                    state[n] = 1
                    for u in sorted(up.get(n, ())):
                        c = dfs(u, stack + [n])
                        if c: return c
                    state[n] = 2
                    return None
                for n in sorted(jobs):
                    cyc = dfs(n, [])
                    if cyc:
                        ctx.fail("job-graph-cyclic", "%s: job cycle %s (recipes %r)" % (where, " -> ".join(cyc),
                                 [r["name"] for r in model["recipes"]]), case)
                        ctx.label("cyclic-known")
                        return            # (a listed known finding: nothing else can be judged on a cyclic graph)
                try:
                    order = genJenkinsBuildOrder(jobs)
                except BobError as e:
                    ctx.fail("job-graph-cyclic", "%s: genJenkinsBuildOrder: %s" % (where, e), case)
                for n in up:
                    for u in up[n]:
                        if u not in jobs:
                            ctx.fail("upstream-job-missing", "%s: job %s depends on unknown job %s" % (where, n, u), case)
                # (2) every reachable package variant is built by exactly one job
                ps = rs.generatePackages(lambda s, p: "x")       # only for the reference traversal (ids), not paths
                roots = []
                for r in cfg.roots:
                    roots.extend(p.getPackageStep() for p in ps.queryPackagePath(r))
                reach = reachable_variants(roots)
                where_built = {}
                for n, j in jobs.items():
                    for kind, steps in (("src", j.getCheckoutSteps()), ("build", j.getBuildSteps()), ("dist", j.getPackageSteps())):
                        for s in steps:
                            where_built.setdefault((jvid(s), kind), []).append(n)
                for (v, kind), s in reach.items():
                    built = where_built.get((v, kind), [])
                    # a *package* is built by exactly one job; a checkout or build step shared by packages of
                    # different jobs is legitimately executed in each of them
                    if (kind == "dist" and len(built) != 1) or not built:
                        ctx.fail("package-built-by-%s-jobs" % ("no" if not built else "several"),
                                 "%s: %s step of %s (variant %s) is built by jobs %r" % (where, kind, "/".join(s.getPackage().getStack()),
                                 v.hex()[:8], built), case)
                # (3) dependencies are built in the same job or upstream
                for (v, kind), s in reach.items():
                  for J in where_built[(v, kind)]:
                    for dep in s.getAllDepSteps():
                        if not dep.isValid():
                            continue
                        djs = where_built.get((jvid(dep), dep.getLabel()), [])
                        dj = djs
                        if not any(x == J or x in up[J] for x in djs):
                            ctx.fail("dependency-not-upstream", "%s: job %s builds %s/%s but its dependency %s/%s is built by job %r "
                                     "which is not upstream (%r)" % (where, J, "/".join(s.getPackage().getStack()), kind,
                                     "/".join(dep.getPackage().getStack()), dep.getLabel(), dj, sorted(up[J])), case)
                # (4) fidelity of the embedded job specification
                nshared = 0
                live_by_vid = {}
                for n, j in jobs.items():
                    nshared += 1 if len(list(j.getPackageSteps())) > 1 else 0
                    spec = j.dumpJobSpec()
                    ir = PartialIR.fromData(json.loads(lzma.decompress(base64.a85decode(spec))))
                    dec = {jvid_ir(r): r for r in ir.getRoots()}
                    for s in j.getPackageSteps():
                        key = jvid(s).hex()
                        if key not in dec:
                            ctx.fail("spec-misses-root", "%s: job %s: package step %s is not a root of the decoded spec" %
                                     (where, n, "/".join(s.getPackage().getStack())), case)
                        live = ExecutableStep.fromStep(s, LazyIR)
                        pairs = [(live, dec[key])]
                        # own build and checkout step of that package
                        lb, db = live.getPackage().getBuildStep(), dec[key].getPackage().getBuildStep()
                        lc, dc = live.getPackage().getCheckoutStep(), dec[key].getPackage().getCheckoutStep()
                        pairs += [(lb, db), (lc, dc)]
                        for a, b in pairs:
                            da, db_ = ir_dump(a), ir_dump(b)
                            if da != db_:
                                diff = [k for k in da if da.get(k) != db_.get(k)]
                                ctx.fail("spec-differs:" + "+".join(diff[:3]), "%s: job %s, %s of %s: decoded job spec differs from the "
                                         "project in %r: %r vs %r" % (where, n, da.get("kind"), a.getPackage().getName() if a.isValid() else "?", diff,
                                         {k: da[k] for k in diff[:2]}, {k: db_.get(k) for k in diff[:2]}), case)
                            if a.isValid() and not a.isCheckoutStep():
                                ba, bb = Bids().of(a), Bids().of(b)
                                if ba != bb:
                                    ctx.fail("spec-buildid-differs", "%s: job %s, %s of %s: Build-Id from the decoded spec %s, from the project %s" %
                                             (where, n, da.get("kind"), a.getPackage().getName() if a.isValid() else "?", bb.hex(), ba.hex()), case)
                variants_per_recipe = {}
                for (v, kind), s in reach.items():
                    if kind == "dist":
                        variants_per_recipe.setdefault(s.getPackage().getRecipe().getName(), set()).add(v)
                multi_variant = any(len(x) > 1 for x in variants_per_recipe.values())
                ctx.record(jhash(case), len(jobs) >= 3 and (nshared > 0 or multi_variant),
                           ["jobs:%d" % min(len(jobs), 8)] + (["multi-variant"] if multi_variant else []) +
                           (["fold-names"] if case.get("fold") else []) + (["isolate"] if case.get("isolate") else []) +
                           (["sbprovider"] if case.get("sbprovider") else []),
                           {"jobs": sorted(jobs)[:8], "roots": cfg.roots, "order": order[:8]})
                ps.close()
            finally:
                bob.state.finalize()
    finally:
        vlib.rmtree(base)

def jvid_ir(es):
    v = es.getVariantId()
    sb = es.getSandbox()
    if sb:
        v = v + sb.getStep().getVariantId()
    return v.hex()

I = st.integers(0, 30)
def case_st(quick):
    return st.fixed_dictionaries({
        "model": projgen.model_st(3, 6 if quick else 7, richness=1, dense=True),
        "roots": st.lists(I, max_size=2),
        "prefix": st.sampled_from(["", "", "pre-", "X_"]),
        "isolate": st.sampled_from([None, None, "r[12]", ".*-a", "r0", "lib"]),
        "sandboxmode": st.sampled_from([True, False, "slim", "dev", "strict"]),
        "short": st.booleans(),
        "cross": st.sampled_from([None, None, 0, 1, 2, 3, 4, 5]),
        "sbprovider": st.sampled_from([False, True, 1, 2, 3]),
        "fold": st.one_of(st.none(), st.none(), st.lists(I, min_size=2, max_size=3, unique=True)),
    })

def shard(ctx):
    run_hypothesis(ctx, case_st(ctx.quick()), lambda c: run_case(ctx, c), ctx.n(3200, 16000), shrink=False)

def replay(ctx, case):
    run_case(ctx, case)

def _f_fold(sig, case, detail):
    """recipe/package names that differ only in characters the job-name sanitiser folds"""
    if sig != "job-graph-cyclic" or not case.get("fold"):
        return False
    return True
FINDINGS = {"C20-job-names-fold-together": _f_fold}
