"""C13 - Steps run in exactly the declared environment.

Deviations from DESIGN.md section 3 / C13:
* the recorder scripts use bash builtins only (`compgen -e` + indirect expansion instead of `env -0`; process creation
  is the bottleneck of this VM).  The dump is written into the step's own workspace (the only place a sandboxed step
  can write to) and collected by walking the project tree afterwards.
* identities: every step leaves an id file (its $BOB_CWD) in its workspace; a script records for every positional
  argument the path, the id found below it and (sandbox cases) whether it could create a file there.  The oracle walks
  the *model's* package tree and follows the observed arguments, so "argument k is the result of the k-th declared
  dependency" is checked by recipe, step kind and by the environment that dependency was built with.
* the order of tools in PATH / LD_LIBRARY_PATH is documented as unspecified: any permutation of the declared tools
  in front of the inherited PATH is accepted.
* sandbox image cases ("image" = empty package + read-only host mounts of /usr, /bin, /lib*, /etc) do not run
  fingerprint scripts (they could not report from inside the container).
* if `bob-namespace-sandbox -C` fails on the host the sandbox cases are executed without sandbox option and labelled
  `skipped_no_userns` - never a violation.
"""
import os, sys, itertools, subprocess
from hypothesis import strategies as st

import vlib
from vlib import bobproc, strlang as L
from vlib.runner import run_hypothesis, Violation, jhash

PROP = "C13"
LEVEL = "exploration"
RULE = ("Generated projects of 1-4 recipes (DAG; per-dependency environment/use/forward/inherit/checkoutDep, "
        "packageDepends, provideVars, provideTools with path/libs/environment, provideDeps, optional checkout step, "
        "an optional inherited class with environment/privateEnvironment/Vars, fingerprintScript+fingerprintVars) whose checkout/build/package/fingerprint scripts dump exported variables, "
        "positional arguments and argument ids with bash builtins. Variable values over a nasty alphabet (quotes, $, "
        "backslash, backtick, newline, tab, \\x01, \\x7f, glob/history characters, blanks, non-ASCII incl. astral and "
        "combining) are defined at every site (-D raw, default.yaml, environment, privateEnvironment, metaEnvironment, "
        "provideVars, dependency and tool environment) in a generated quoting style of the substitution language; "
        "declared/weak/undeclared per step; host environment with canaries (also named like recipe variables); "
        "whitelist/whitelistRemove/-e/-E; dev and release mode; sandbox modes no/yes/slim/dev/strict with and without a "
        "sandbox image. Oracle = independent model of the documented environment rules: observed names == declared "
        "and set (carry-forward applied) + whitelisted host variables + PATH/LD_LIBRARY_PATH/BOB_CWD + bash's own; "
        "every value byte-exact; arguments follow the declared dependencies (checked through ids and the environment "
        "of the argument's own dump); PATH starts with the declared tools' directories, LD_LIBRARY_PATH equals their "
        "libs; fingerprint scripts see fingerprintVars of the step only; in a sandbox only the own workspace (writable), "
        "declared arguments/tools/earlier steps (read-only) and a fresh /tmp are reachable. Non-trivial: a value with "
        "one of ' \" $ \\ newline or non-ASCII was delivered to a step and that package had >=1 variable not visible "
        "to the step; distinct = hash of the case.")
ASSUMPTIONS = [
    "bash 5 indirect expansion and printf %s are byte transparent (cross-checked once against env -0)",
    "a recipe variable that is also whitelisted: the recipe value wins (property: declared variables carry the recipe value)",
    "weak variables do not separate variants: the observed value may be that of any instance of the same recipe",
    "names PATH, LD_LIBRARY_PATH, BOB_CWD, bash's special variables and variables interpreted by Python/Bob itself "
    "(TMPDIR, PYTHON*, MAKEFLAGS, LD_*) are not used as generated variable names",
    "sandbox sub-check needs unprivileged user namespaces; otherwise cases are labelled skipped_no_userns",
    "Bob runs inside the harness process; suspected violations are re-run with the real bob script before reporting",
]
TIME_BUDGET = {"quick": 175, "thorough": 1700}
BATCH = 4

# =======================================================================================
# generation

POOL = ["VA", "VB", "VC", "VD", "VE", "v_f", "_G", "H9", "TERM", "USER", "LANG"]
TOOLVARS = {"ta": ["TA_X", "VD", "TA_Z"], "tb": ["TB_X", "VE"]}
CANARIES = ["CANARY_A", "CANARY_B", "SSH_AUTH_SOCK", "http_proxy", "CC", "DISPLAY", "XDG_RUNTIME_DIR", "EDITOR"]
TOOLPATHS = ["bin", "usr/bin", "t ool", "q'x", "d$y", "é/b"]
LIBPATHS = ["lib", "usr/l ib", "l\"q", "l$z"]

NASTY = "'\"$\\`\n\t\x01\x7f*?[]{}!#&|;<>()~%= aB0_-/.:,éß☃́​😀𝒳"
SPECIALS = ["", " ", "  x  ", "'", '"', "\\", "a\\", "$", "$HOME", "${VA}", "$(echo x)", "`id`", "\n", "a\nb\n", "\t",
            "\x01", "\x7f", "-n", "-e", "%s\\n", "\\n", "~", "*", "#c", "!!", "!$", "a b", "'$VA'", "\"q\"", "$'\\x41'",
            "é", "é", "😀", "\U0001F468‍\U0001F469", "0", "false", "x=y", "a,b)", "}", "${", "$("]
value_st = st.one_of(st.sampled_from(SPECIALS), st.text(alphabet=NASTY, min_size=1, max_size=8),
                     st.text(alphabet=NASTY, min_size=1, max_size=8),
                     st.text(alphabet=st.characters(blacklist_categories=("Cs",), blacklist_characters="\x00"),
                             min_size=1, max_size=5))
prot_st = st.lists(st.integers(0, 15), min_size=1, max_size=4)
name_st = st.sampled_from(POOL)

def lit(v, p):
    return ["lit", v, p]

lit_st = st.builds(lit, value_st, prot_st)
ref_st = st.one_of(
    st.builds(lambda n, c, v, p: ["def", ["lit", n, [0]], c, lit(v, p)], name_st, st.booleans(), value_st, prot_st),
    st.builds(lambda n, c, v, p: ["alt", ["lit", n, [0]], c, lit(v, p)], name_st, st.booleans(), value_st, prot_st))
# a value tree: mostly one literal, sometimes literal pieces mixed with ${N-x} / ${N:+x} and "..." groups
tree_st = st.one_of(
    lit_st, lit_st,
    st.lists(st.one_of(lit_st, lit_st, ref_st, st.lists(st.one_of(lit_st, ref_st), min_size=1, max_size=2)
                       .map(lambda cs: ["dq", cs])), min_size=1, max_size=3).map(lambda cs: ["seq", cs]))
littree_st = st.one_of(lit_st, st.lists(lit_st, min_size=1, max_size=2).map(lambda cs: ["seq", cs]))

def vardict_st(tree, names=name_st, max_size=3):
    return st.lists(st.tuples(names, tree).map(list), max_size=max_size, unique_by=lambda t: t[0])

USE_POOL = POOL + ["BOB_RECIPE_NAME", "BOB_PACKAGE_NAME", "BOB_HOST_PLATFORM"]      # "populated internally by Bob"
varlist_st = st.lists(st.sampled_from(USE_POOL), max_size=3, unique=True)
KINDS = ("checkout", "build", "package")

def steps_st(elem):
    return st.fixed_dictionaries({k: elem for k in KINDS})

def tool_st(name):
    return st.fixed_dictionaries({
        "name": st.just(name),
        "path": st.sampled_from(TOOLPATHS),
        "pprot": prot_st,
        "libs": st.lists(st.sampled_from(LIBPATHS), max_size=2, unique=True),
        "env": vardict_st(tree_st, st.sampled_from(TOOLVARS[name]), 2),
    })

def dep_st(i, n):
    return st.fixed_dictionaries({
        "r": st.integers(i + 1, n - 1),
        "use": st.sampled_from([["result", "deps"], ["result", "deps"], ["result"], ["result", "environment"],
                                ["result", "tools", "environment", "deps"], ["tools"], ["environment"],
                                ["tools", "environment"], ["result", "tools"], ["result", "sandbox", "deps"],
                                ["result", "tools", "deps"], ["tools", "environment", "deps"]]),
        "forward": st.booleans(),
        "inherit": st.sampled_from([True, True, True, False]),
        "checkoutDep": st.sampled_from([False, False, True]),
        "env": vardict_st(littree_st, max_size=2),
    })

def recipe_st(i, n):
    return st.fixed_dictionaries({
        "env": vardict_st(tree_st),
        "private": vardict_st(tree_st, max_size=2),
        "meta": vardict_st(tree_st, max_size=1),
        "provide_vars": vardict_st(tree_st, max_size=2),
        "checkout": st.booleans(),
        "vars": steps_st(varlist_st),
        "weak": steps_st(st.one_of(st.just([]), st.lists(name_st, max_size=2, unique=True))),
        "tools_used": steps_st(st.sampled_from([[], [], ["ta"], ["tb"], ["ta", "tb"], ["tb", "ta"]])),
        "provide_tools": st.sampled_from([[], ["ta"], ["tb"], ["ta", "tb"], ["ta", "tb"]])
                           .flatmap(lambda ns: st.tuples(*[tool_st(x) for x in ns]).map(list)) if i > 0 else st.just([]),
        "deps": st.lists(dep_st(i, n), min_size=1 if i == 0 else 0, max_size=3) if i < n - 1 else st.just([]),
        "package_depends": st.sampled_from([False, False, True]),
        "provide_deps": st.sampled_from([False, False, True]),
        "fingerprint": st.one_of(st.none(), st.none(), varlist_st),
        "provide_sandbox": st.booleans(),
        "inherit": st.sampled_from([False, False, True]),
    })

class_st = st.fixed_dictionaries({
    "env": vardict_st(tree_st, max_size=2),
    "private": vardict_st(tree_st, max_size=2),
    "vars": steps_st(st.lists(st.sampled_from(USE_POOL), max_size=2, unique=True)),
    "weak": steps_st(st.one_of(st.just([]), st.lists(name_st, max_size=1))),
})

@st.composite
def raw_case_st(draw, quick=True):
    n = draw(st.sampled_from([1, 2, 2, 3, 3, 3, 4]))
    recipes = [draw(recipe_st(i, n)) for i in range(n)]
    host = draw(st.lists(st.tuples(st.sampled_from(CANARIES + POOL[:8]), value_st).map(list), min_size=1, max_size=5,
                         unique_by=lambda t: t[0]))
    wlnames = st.sampled_from(CANARIES + POOL + ["HOME", "SHELL", "NOT_SET_ANYWHERE"])
    sandbox = draw(st.sampled_from(["no"] * 7 + ["slim", "dev", "strict", "yes", "slim", "dev"]))
    return {
        "recipes": recipes,
        "cls": draw(class_st),
        "no_audit": draw(st.booleans()),
        "default_env": draw(vardict_st(tree_st)),
        "defines": draw(st.lists(st.tuples(name_st, value_st).map(list), max_size=2, unique_by=lambda t: t[0])),
        "host": host,
        "whitelist": draw(st.lists(wlnames, max_size=2, unique=True)),
        "whitelist_remove": draw(st.one_of(st.just([]), st.lists(wlnames, max_size=2, unique=True))),
        "dash_e": draw(st.one_of(st.just([]), st.lists(wlnames, max_size=2, unique=True))),
        "preserve": draw(st.sampled_from([False] * 5 + [True])),
        "mode": draw(st.sampled_from(["dev", "dev", "build"])),
        "sandbox": sandbox,
        "image": draw(st.booleans()) if sandbox in ("dev", "strict", "yes") else False,
    }

MAX_INSTANCES = 9

def normalize(case):
    """Deterministic repair of a raw case so that Bob accepts it (no undefined tools, bounded tree size,
    whitelist and whitelistRemove disjoint, ...).  The normalized case is what is executed and saved."""
    case = dict(case)
    case["whitelist_remove"] = [n for n in case["whitelist_remove"] if n not in case["whitelist"]]
    rs = [dict(r) for r in case["recipes"]]
    case["recipes"] = rs
    n = len(rs)
    if not case["image"] or n < 2:
        case["image"] = False
    case["default_env"] = strip_dict(case["default_env"])
    case["cls"] = dict(case["cls"], env=strip_dict(case["cls"]["env"]), private=strip_dict(case["cls"]["private"]))
    for i, r in enumerate(rs):
        for f in ("env", "private", "meta", "provide_vars"):
            r[f] = strip_dict(r[f])
        r["provide_tools"] = [dict(t, env=strip_dict(t["env"])) for t in r["provide_tools"]]
        r["deps"] = [dict(d) for d in r["deps"]]
        seen = set()
        deps = []
        for d in r["deps"]:
            if d["r"] in seen:          # every dependency is named once (no aliases generated)
                continue
            seen.add(d["r"])
            if "sandbox" in d["use"] and not case["image"]:
                d["use"] = [u for u in d["use"] if u != "sandbox"]
            if "result" not in d["use"]:
                d["checkoutDep"] = False
            deps.append(d)
        r["deps"] = deps
        if not r["checkout"]:
            r["vars"] = dict(r["vars"], checkout=[]); r["weak"] = dict(r["weak"], checkout=[])
            r["tools_used"] = dict(r["tools_used"], checkout=[])
            for d in r["deps"]:
                d["checkoutDep"] = False
        if not case["image"]:
            r["provide_sandbox"] = False
        if case["image"]:
            r["fingerprint"] = None
    if case["image"]:
        # the last recipe is the image; at least the root consumes it
        rs[n - 1]["provide_sandbox"] = True
        rs[n - 1]["deps"] = []
        root = rs[0]
        if not any(d["r"] == n - 1 for d in root["deps"]):
            root["deps"] = [{"r": n - 1, "use": ["sandbox"], "forward": True, "inherit": True, "checkoutDep": False,
                             "env": []}] + root["deps"][:2]
        for d in root["deps"]:
            if d["r"] == n - 1 and "sandbox" not in d["use"]:
                d["use"] = d["use"] + ["sandbox"]
    # bound the size of the package tree and drop uses of tools that are not defined where they are used
    for _ in range(80):
        m = Model(case, "/nonexistent")
        try:
            m.build()
        except _Repair as rep:
            rep.apply(rs)
            continue
        break
    else:
        for r in rs:
            r["deps"] = []
            r["tools_used"] = {k: [] for k in KINDS}
        if case["image"]:
            case["image"] = False
            for r in rs:
                r["provide_sandbox"] = False
    return case

def case_st(quick):
    return raw_case_st(quick).map(normalize)

# =======================================================================================
# the model (written from doc/manual/configuration.rst "Environment handling", "Tool handling",
# {checkout,build,package}Vars[Weak], depends, provideVars, provideTools, privateEnvironment, metaEnvironment)

class _Repair(Exception):
    def __init__(self, what, ri, arg=None):
        self.what, self.ri, self.arg = what, ri, arg
    def apply(self, rs):
        r = rs[self.ri]
        if self.what == "tool":
            r["tools_used"] = {k: [t for t in v if t != self.arg] for k, v in r["tools_used"].items()}
        elif self.what == "size":
            # drop the last dependency of the deepest recipe that still has one
            for q in reversed(rs):
                if q["deps"] and not (q is rs[0] and len(q["deps"]) == 1 and "sandbox" in q["deps"][0]["use"]):
                    q["deps"] = q["deps"][:-1]
                    break
        elif self.what == "provdeps":
            r["provide_deps"] = False

def ev(tree, env):
    return L.ev(tree, env, {"sandbox": False, "tools": {}}, True)

SANDBOX_ENV = {"VC": "from sandbox '$x\" \\ \u00e9", "SB_ONLY": "1"}

def refs_of(t):
    k = t[0]
    if k == "lit":
        return set()
    if k in ("seq", "dq"):
        return set().union(*[refs_of(c) for c in t[1]]) if t[1] else set()
    if k in ("def", "alt"):
        return {t[1][1]} | refs_of(t[3])
    raise AssertionError(k)

def strip_refs(t, forbidden):
    """replace ${N-x} / ${N+x} by x where N is forbidden"""
    k = t[0]
    if k == "lit":
        return t
    if k in ("seq", "dq"):
        return [k, [strip_refs(c, forbidden) for c in t[1]]]
    if k in ("def", "alt"):
        return t[3] if t[1][1] in forbidden else t
    raise AssertionError(k)

def strip_dict(pairs):
    keys = {k for k, _ in pairs}
    return [[k, strip_refs(t, keys)] for k, t in pairs]

class Tool:
    def __init__(self, name, provider, path, libs, env):
        self.name, self.provider, self.path, self.libs, self.env = name, provider, path, libs, env

class Inst:
    pass

def rname(i):
    return "r%d" % i

class Model:
    def __init__(self, case, root):
        self.case = case
        self.root = root
        self.insts = []
        self.sandbox_enabled = case["sandbox"] in ("dev", "yes", "strict")      # a sandbox image is used if available
        self.slim = case["sandbox"] in ("slim", "dev", "strict")                # every step is isolated

    def host_env(self):
        home = os.path.join(self.root, ".home")
        return bobproc.clean_env(home, dict((k, v) for k, v in self.case["host"]))

    def whitelist(self):
        wl = {"PATH", "TERM", "SHELL", "USER", "HOME"}          # manual: default.yaml "whitelist", POSIX platforms
        wl |= set(self.case["whitelist"])
        wl -= set(self.case["whitelist_remove"])
        wl |= set(self.case["dash_e"])
        return wl

    def build(self):
        host = self.host_env()
        # "The variables listed in environment of default.yaml ... are mangled through string substitution by the
        #  current OS environment ... The user might additionally override or set certain variables from the command
        #  line. Such variables are always taken over verbatim."
        self.root_env = {k: ev(t, host) for k, t in self.case["default_env"]}
        self.root_env.update({k: v for k, v in self.case["defines"]})
        self.root_env["BOB_HOST_PLATFORM"] = "linux"
        self.top = self.visit(0, dict(self.root_env), {}, None, ["r0"])
        return self.top

    def visit(self, ri, in_env, in_tools, in_sandbox, path):
        if len(self.insts) >= MAX_INSTANCES:
            raise _Repair("size", ri)
        r = self.case["recipes"][ri]
        me = Inst()
        me.ri, me.path, me.recipe = ri, path, r
        self.insts.append(me)
        env = dict(in_env)
        # 1. "Any variable defined in environment is set to the given value."  (values never refer to a name that is
        #    defined in the same dictionary - see strip_refs - so the order inside the dictionary does not matter)
        #    "Declarations of classes are substituted in their inheritance order ... The definitions of the recipe has
        #    the highest precedence (i.e. it is substituted last)."
        cls = self.case["cls"] if r["inherit"] else None
        if cls is not None:
            env.update({k: ev(t, in_env) for k, t in cls["env"]})
        base = dict(env)
        env.update({k: ev(t, base) for k, t in r["env"]})
        # 2. forwarded environment / tools / sandbox
        fwd_env, fwd_tools, fwd_sandbox = dict(env), dict(in_tools), in_sandbox
        tools = dict(in_tools)
        sandbox = in_sandbox
        me.results, me.checkout_deps, me.dep_subs = [], [], []
        indirect = []
        for d in r["deps"]:
            if d["inherit"]:
                d_env, d_tools, d_sandbox = dict(fwd_env), dict(fwd_tools), fwd_sandbox
            else:
                # "all environment variables are reset to their default and no tools or sandbox are passed down"
                d_env, d_tools, d_sandbox = dict(self.root_env), {}, None
            d_env.update({k: ev(t, {}) for k, t in d["env"]})         # literal values only
            sub = self.visit(d["r"], d_env, d_tools, d_sandbox, path + [rname(d["r"])])
            me.dep_subs.append(sub)
            if "deps" in d["use"]:
                indirect.extend((sub, s) for s in sub.provided_deps)
            if "result" in d["use"]:
                me.results.append(sub)
                if d["checkoutDep"]:
                    me.checkout_deps.append(sub)
            if "tools" in d["use"]:
                tools.update(sub.provided_tools)
                if d["forward"]:
                    fwd_tools.update(sub.provided_tools)
            if "environment" in d["use"]:
                env.update(sub.provided_vars)
                if d["forward"]:
                    fwd_env.update(sub.provided_vars)
            if "sandbox" in d["use"] and sub.recipe["provide_sandbox"]:
                sandbox = sub
                if d["forward"]:
                    fwd_sandbox = sub
                if self.sandbox_enabled:
                    # provideSandbox environment: "only consumed if the sandbox is actually used ... higher precedence
                    # than the ones defined in provideVars"
                    env.update(SANDBOX_ENV)
                    if d["forward"]:
                        fwd_env.update(SANDBOX_ENV)
        # provided dependencies: "added at the end of the dependency list unless the dependency is already on the list"
        used = {rname(s.ri) for s in me.results}
        named = {rname(d["r"]) for d in r["deps"]}
        for via, s in indirect:
            nm = rname(s.ri)
            if nm in used:
                continue            # (same variant, or Bob rejects the project: "rejected:incompatible-variants")
            if nm in named:
                # named directly without using its result and provided by another dependency: the manual does not say
                # whether that counts as "already on the list"
                raise _Repair("provdeps", via.ri)
            used.add(nm)
            me.results.append(s)
        # tools: "A tool that is consumed in one step is also set in the following."
        me.tools = {}
        acc = []
        for k in KINDS:
            for t in r["tools_used"][k]:
                if t not in acc:
                    acc.append(t)
            for t in acc:
                if t not in tools:
                    raise _Repair("tool", ri, t)
            me.tools[k] = [tools[t] for t in sorted(acc)]
        # "the environment variables of tools that are used in the recipe are merged into the local environment"
        for t in me.tools["package"]:
            env.update(t.env)
        # "Finally, variables defined in privateEnvironment and metaEnvironment are merged too."
        if cls is not None:
            base = dict(env)
            env.update({k: ev(t, base) for k, t in cls["private"]})
        base = dict(env)
        env.update({k: ev(t, base) for k, t in r["private"]})
        base = dict(env)
        env.update({k: ev(t, base) for k, t in r["meta"]})
        env["BOB_RECIPE_NAME"] = rname(ri)
        env["BOB_PACKAGE_NAME"] = rname(ri)
        me.env = env
        me.sandbox = sandbox if (sandbox is not None and self.sandbox_enabled) else None
        # visible variables: "A variable that is consumed in one step is also set in the following."
        me.strong, me.weak, me.decl = {}, {}, {}
        s_acc, w_acc = set(), set()
        for k in KINDS:
            s_acc |= set(r["vars"][k]); w_acc |= set(r["weak"][k])
            if cls is not None:
                s_acc |= set(cls["vars"][k]); w_acc |= set(cls["weak"][k])
            me.decl[k] = set(s_acc)
            me.strong[k] = {n: env[n] for n in s_acc if n in env}
            me.weak[k] = {n: env.get(n) for n in (w_acc - s_acc)}
        me.provided_vars = {k: ev(t, env) for k, t in r["provide_vars"]}
        me.provided_tools = {t["name"]: Tool(t["name"], me, t["path"], t["libs"], {k: ev(tr, env) for k, tr in t["env"]})
                             for t in r["provide_tools"]}
        # provideDeps: ["*"] = every named dependency plus what those provide themselves, each name once
        me.provided_deps = []
        if r["provide_deps"]:
            seen = set()
            for sub in me.dep_subs:
                for s in [sub] + sub.provided_deps:
                    if rname(s.ri) not in seen:
                        seen.add(rname(s.ri))
                        me.provided_deps.append(s)
        return me

    # -- derived facts ----------------------------------------------------------------
    def args_of(self, inst, kind):
        """expected positional arguments: list of ("step", inst, kind) | ("invalid",)"""
        r = inst.recipe
        if kind == "checkout":
            return [("step", s, "package") for s in inst.checkout_deps]
        if kind == "build":
            first = ("step", inst, "checkout") if r["checkout"] else ("invalid",)
            return [first] + [("step", s, "package") for s in inst.results]
        out = [("step", inst, "build")]
        if r["package_depends"]:
            out += [("step", s, "package") for s in inst.results]
        return out

    def weak_candidates(self, ri, kind, name):
        return {i.weak[kind].get(name) for i in self.insts if i.ri == ri and name in i.weak[kind]}

# =======================================================================================
# rendering

def _dump_yaml(doc):
    import yaml
    return yaml.safe_dump(doc, allow_unicode=False, default_flow_style=False, sort_keys=True, width=100000)

def sq(s):
    """bash single quoted literal (harness side only: paths and recipe names)"""
    return "'" + s.replace("'", "'\\''") + "'"

def recorder(recipe, kind, probes, tmp_probe):
    """bash (builtins only) that dumps arguments, ids below the arguments and all exported variables"""
    wprobe = ""
    if probes is not None:
        wprobe = "  if [[ -d $__a ]]; then if : 2>/dev/null > \"$__a/.verif-w\"; then __w=1; fi; fi\n"
    s = ("# C13 recorder %(r)s %(k)s\n"
         "printf '%%s\\0' \"$BOB_CWD\" > .verif-id\n"
         "compgen -e > .verif-names\n"
         "{\n"
         "__i='?'; if [[ -e /.verif-id ]]; then read -r -d '' __i < /.verif-id || : ; fi\n"
         "printf '%%s\\0' %(r)s %(k)s \"$__i\" \"$#\"\n"
         "for __a in \"$@\"; do\n"
         "  __i='?'; __w=0\n"
         "  if [[ -e $__a/.verif-id ]]; then read -r -d '' __i < \"$__a/.verif-id\" || : ; fi\n"
         "%(wprobe)s"
         "  printf '%%s\\0' \"$__a\" \"$__i\" \"$__w\"\n"
         "done\n"
         "while read -r __n; do printf '%%s\\0%%s\\0' \"$__n\" \"${!__n-}\"; done < .verif-names\n"
         "printf '%%s\\0' '=PATHS'\n"
         "IFS=: read -r -a __ps <<< \"$PATH\" || :\n"
         "for __a in \"${__ps[@]}\"; do\n"
         "  __q=$__a; __i='?'\n"
         "  while [[ -n $__q ]]; do\n"
         "    if [[ -e $__q/.verif-id ]]; then read -r -d '' __i < \"$__q/.verif-id\" || : ; break; fi\n"
         "    __q=${__q%%/*}\n"
         "  done\n"
         "  printf '%%s\\0' \"$__a\" \"$__q\" \"$__i\"\n"
         "done\n"
         "printf '%%s\\0' '=PROBE'\n") % {"r": sq(recipe), "k": sq(kind), "wprobe": wprobe}
    if probes:
        s += ("for __p in %s; do\n"
              "  __e=0; __w=0\n"
              "  if [[ -e $__p ]]; then __e=1; if : 2>/dev/null > \"$__p/.verif-w\"; then __w=1; fi; fi\n"
              "  printf '%%s\\0' \"$__p\" \"$__e\" \"$__w\"\n"
              "done\n") % " ".join(sq(p) for p in probes)
    if tmp_probe:
        s += ("__e=0; __w=0\n"
              "if [[ -e /tmp/verif-c13-marker ]]; then __e=1; fi\n"
              "if : 2>/dev/null > /tmp/verif-c13-marker; then __w=1; fi\n"
              "printf '%s\\0' '/tmp' \"$__e\" \"$__w\"\n")
    s += ("printf '%s\\0' '=END'\n"
          "} > .verif-dump\n")
    return s

def fp_recorder(recipe, root):
    return ("compgen -e > names\n"
            "{\n"
            "printf '%%s\\0' '=FP' %s\n"
            "while read -r __n; do printf '%%s\\0%%s\\0' \"$__n\" \"${!__n-}\"; done < names\n"
            "printf '%%s\\0' '=END'\n"
            "} >> %s\n"
            "echo fingerprint-of-%s\n") % (sq(recipe), sq(os.path.join(root, ".verif-fp")), recipe)

IMAGE_MOUNTS = ["/usr", "/bin", "/lib", "/lib64", "/lib32", "/libx32", "/sbin", "/etc"]

def probe_paths(case, root):
    out = []
    for i in range(len(case["recipes"])):
        for kind in ("src", "build", "dist"):
            for n in (1, 2, 3):
                if case["mode"] == "dev":
                    out.append(os.path.join(root, "dev", kind, rname(i), str(n), "workspace"))
                else:
                    out.append(os.path.join(root, "work", rname(i), kind, str(n), "workspace"))
    out.append(os.path.join(os.path.dirname(root), "outside"))
    return out

def render(case, root, sandboxed):
    """write the project; sandboxed=False renders the sandbox cases without probes (host without user namespaces)"""
    os.makedirs(os.path.join(root, "recipes"), exist_ok=True)
    with open(os.path.join(root, "config.yaml"), "w") as f:
        f.write(_dump_yaml({"bobMinimumVersion": "1.0"}))
    dflt = {}
    if case["default_env"]:
        dflt["environment"] = {k: L.render(t) for k, t in case["default_env"]}
    if case["whitelist"]:
        dflt["whitelist"] = list(case["whitelist"])
    if case["whitelist_remove"]:
        dflt["whitelistRemove"] = list(case["whitelist_remove"])
    with open(os.path.join(root, "default.yaml"), "w") as f:
        f.write(_dump_yaml(dflt) if dflt else "{}\n")
    cls = case["cls"]
    cdoc = {}
    if cls["env"]: cdoc["environment"] = {k: L.render(t) for k, t in cls["env"]}
    if cls["private"]: cdoc["privateEnvironment"] = {k: L.render(t) for k, t in cls["private"]}
    for k in KINDS:
        if cls["vars"][k]: cdoc[k + "Vars"] = list(cls["vars"][k])
        if cls["weak"][k]: cdoc[k + "VarsWeak"] = list(cls["weak"][k])
    os.makedirs(os.path.join(root, "classes"), exist_ok=True)
    with open(os.path.join(root, "classes", "cls.yaml"), "w") as f:
        f.write(_dump_yaml(cdoc) if cdoc else "{}\n")
    probes = probe_paths(case, root) if (sandboxed and case["sandbox"] != "no") else None
    tmp_probe = sandboxed and case["sandbox"] in ("slim", "dev", "strict")
    n = len(case["recipes"])
    for i, r in enumerate(case["recipes"]):
        name = rname(i)
        doc = {}
        if i == 0:
            doc["root"] = True
        if r["inherit"]:
            doc["inherit"] = ["cls"]
        for key, field in (("environment", "env"), ("privateEnvironment", "private"), ("metaEnvironment", "meta"),
                           ("provideVars", "provide_vars")):
            if r[field]:
                doc[key] = {k: L.render(t) for k, t in r[field]}
        if r["checkout"]:
            doc["checkoutScript"] = recorder(name, "checkout", probes, tmp_probe)
            doc["checkoutDeterministic"] = True
        doc["buildScript"] = recorder(name, "build", probes, tmp_probe)
        doc["packageScript"] = recorder(name, "package", probes, tmp_probe)
        for k in KINDS:
            if r["vars"][k]:
                doc[k + "Vars"] = list(r["vars"][k])
            if r["weak"][k]:
                doc[k + "VarsWeak"] = list(r["weak"][k])
            if r["tools_used"][k]:
                doc[k + "Tools"] = list(r["tools_used"][k])
        if r["provide_tools"]:
            doc["provideTools"] = {}
            for t in r["provide_tools"]:
                td = {"path": L.render(lit(t["path"], t["pprot"]))}
                if t["libs"]:
                    td["libs"] = [L.render(lit(l, t["pprot"])) for l in t["libs"]]
                if t["env"]:
                    td["environment"] = {k: L.render(tr) for k, tr in t["env"]}
                doc["provideTools"][t["name"]] = td
        if r["deps"]:
            doc["depends"] = []
            for d in r["deps"]:
                dd = {"name": rname(d["r"]), "use": list(d["use"])}
                if d["forward"]: dd["forward"] = True
                if not d["inherit"]: dd["inherit"] = False
                if d["checkoutDep"]: dd["checkoutDep"] = True
                if d["env"]:
                    dd["environment"] = {k: L.render(t) for k, t in d["env"]}
                doc["depends"].append(dd)
        if r["package_depends"]:
            doc["packageDepends"] = True
        if r["provide_deps"] and r["deps"]:
            doc["provideDeps"] = ["*"]
        if r["fingerprint"] is not None:
            doc["fingerprintIf"] = True
            doc["fingerprintScript"] = fp_recorder(name, root)
            if r["fingerprint"]:
                doc["fingerprintVars"] = list(r["fingerprint"])
        if r["provide_sandbox"]:
            doc["provideSandbox"] = {"paths": ["/usr/local/bin", "/usr/bin", "/bin"],
                                     "mount": [[m, m, ["nofail"]] for m in IMAGE_MOUNTS if os.path.exists(m)],
                                     "environment": {k: L.render(lit(v, [0])) for k, v in SANDBOX_ENV.items()}}
        with open(os.path.join(root, "recipes", name + ".yaml"), "w") as f:
            f.write(_dump_yaml(doc))

def argv_of(case, sandboxed):
    argv = ["dev" if case["mode"] == "dev" else "build", "r0"]
    for k, v in case["defines"]:
        argv.append("-D%s=%s" % (k, v))
    for n in case["dash_e"]:
        argv += ["-e", n]
    if case["preserve"]:
        argv.append("-E")
    if case["no_audit"]:
        argv.append("--no-audit")
    sb = case["sandbox"] if sandboxed else "no"
    argv.append({"no": "--no-sandbox", "yes": "--sandbox", "slim": "--slim-sandbox", "dev": "--dev-sandbox",
                 "strict": "--strict-sandbox"}[sb])
    return argv

# =======================================================================================
# observation

class Dump:
    pass

def parse_dump(path):
    with open(path, "rb") as f:
        toks = f.read().split(b"\0")
    if toks[-1] != b"" or len(toks) < 5 or toks[-2] != b"=END":
        return None
    toks = toks[:-1]
    d = Dump()
    d.file = path
    d.recipe, d.kind = toks[0].decode(), toks[1].decode()
    d.image_id = toks[2].decode("utf-8", "surrogateescape")
    n = int(toks[3])
    pos = 4
    d.args = []
    for _ in range(n):
        d.args.append((toks[pos].decode("utf-8", "surrogateescape"), toks[pos + 1].decode("utf-8", "surrogateescape"),
                       toks[pos + 2] == b"1"))
        pos += 3
    d.env = {}
    while toks[pos] != b"=PATHS":
        d.env[toks[pos].decode("utf-8", "surrogateescape")] = toks[pos + 1]
        pos += 2
    pos += 1
    d.paths = []
    while toks[pos] != b"=PROBE":
        d.paths.append(tuple(t.decode("utf-8", "surrogateescape") for t in toks[pos:pos + 3]))
        pos += 3
    pos += 1
    d.probes = {}
    while toks[pos] != b"=END":
        d.probes[toks[pos].decode()] = (toks[pos + 1] == b"1", toks[pos + 2] == b"1")
        pos += 3
    d.cwd = d.env.get("BOB_CWD", b"?").decode("utf-8", "surrogateescape")
    return d

def collect(root):
    """{BOB_CWD: Dump} of all step workspaces below the project"""
    out = {}
    bad = []
    for top in ("dev", "work"):
        for dp, dn, fn in os.walk(os.path.join(root, top)):
            if os.path.basename(dp) == "workspace":
                dn[:] = []
                p = os.path.join(dp, ".verif-dump")
                if os.path.exists(p):
                    d = parse_dump(p)
                    if d is None:
                        bad.append(p)
                    else:
                        d.workspace = dp
                        out.setdefault(d.cwd, []).append(d)
    return out, bad

def parse_fp(root):
    p = os.path.join(root, ".verif-fp")
    if not os.path.exists(p):
        return []
    with open(p, "rb") as f:
        toks = f.read().split(b"\0")[:-1]
    out = []
    pos = 0
    while pos < len(toks):
        assert toks[pos] == b"=FP", toks[pos]
        rec = {"recipe": toks[pos + 1].decode(), "env": {}}
        pos += 2
        while toks[pos] != b"=END":
            rec["env"][toks[pos].decode("utf-8", "surrogateescape")] = toks[pos + 1]
            pos += 2
        pos += 1
        out.append(rec)
    return out

# =======================================================================================
# oracle

BASH_OWN = {"PWD", "OLDPWD", "SHLVL", "_"}
BOB_OWN = {"PATH", "LD_LIBRARY_PATH", "BOB_CWD"}
INTERESTING = set("'\"$\\\n")

def interesting(v):
    return any(c in INTERESTING or ord(c) > 127 for c in v)

def b(s):
    return s.encode("utf-8", "surrogateescape")

def short(x):
    r = repr(x)
    return r if len(r) < 80 else r[:77] + "..."

class Oracle:
    def __init__(self, ctx, case, model, dumps, sandboxed):
        self.ctx, self.case, self.m, self.dumps, self.sandboxed = ctx, case, model, dumps, sandboxed
        self.host = model.host_env()
        self.wl = model.whitelist()
        self.host_visible = dict(self.host) if case["preserve"] else {k: v for k, v in self.host.items() if k in self.wl}
        self.done = {}
        self.delivered_interesting = False
        self.had_undeclared = False
        self.labels = set()
        self.steps_checked = 0

    def fail(self, sig, detail):
        self.ctx.fail(sig, detail, self.case)

    def lookup(self, key, what):
        ds = self.dumps.get(key)
        if not ds:
            return None
        if len(ds) > 1:
            self.fail("workspace-id-not-unique", "%s: %d workspaces report BOB_CWD %s: %r" %
                      (what, len(ds), key, [d.workspace for d in ds]))
        return ds[0]

    def verify(self, inst, kind, key, via):
        """the dump found at exec path `key` must be step `kind` of model instance `inst`"""
        memo = (id(inst), kind, key)
        if memo in self.done:
            return
        self.done[memo] = True
        where = "%s %s step (%s)" % ("/".join(inst.path), kind, via)
        d = self.lookup(key, where)
        if d is None:
            self.fail("argument-not-a-step-result", "%s: %s is not the workspace of any executed step" % (where, key))
        if d.recipe != rname(inst.ri) or d.kind != kind:
            self.fail("wrong-argument", "%s: expected the %s step of %s but %s holds the %s step of %s" %
                      (where, kind, rname(inst.ri), key, d.kind, d.recipe))
        self.steps_checked += 1
        self.check_env(inst, kind, d, where)
        self.check_args(inst, kind, d, where)
        self.check_tools(inst, kind, d, where)
        # The root file system is the consumed sandbox image (its id file is then /.verif-id) or the host's.  "The build
        # result is always an invariant of the sandbox" (policies: sandboxInvariant), i.e. packages that differ only in
        # the sandbox share one workspace: any instance of the recipe may have been the one that was executed.
        cands = []
        for i in [inst] + [i for i in self.m.insts if i.ri == inst.ri and i is not inst]:
            sb = i.sandbox if self.sandboxed else None
            if sb not in cands:
                cands.append(sb)
        if d.image_id == "?":
            if None not in cands:
                self.fail("sandbox-image-not-used", "%s: the package consumes the sandbox image of %s but the step does not "
                          "run inside it" % (where, "/".join(inst.sandbox.path)))
        else:
            real = [c for c in cands if c is not None]
            if not real:
                self.fail("sandbox-image-undeclared", "%s: runs inside the image %s which it does not consume" % (where, d.image_id))
            self.labels.add("step-in-image")
            for n, c in enumerate(real):
                try:
                    self.verify(c, "package", d.image_id, "sandbox image of %s %s" % ("/".join(inst.path), kind))
                    break
                except Violation:
                    if n == len(real) - 1:
                        raise
        if self.sandboxed and self.case["sandbox"] != "no":
            self.check_sandbox(inst, kind, d, where)

    # -- environment ------------------------------------------------------------------
    def weak_ok(self, inst, kind, n, got, where):
        """weak variables do not separate variants: any instance of the recipe may have been the one that was built"""
        cands = self.m.weak_candidates(inst.ri, kind, n)
        if got is None:
            return None in cands
        return any(c is not None and got == b(c) for c in cands)

    def check_env(self, inst, kind, d, where):
        strong, weak, decl = inst.strong[kind], inst.weak[kind], inst.decl[kind]
        declared = set(decl) | set(weak)
        # inside a container bob-namespace-sandbox sets HOME to the home directory of the sandbox user (taken from the
        # image's /etc/passwd; "Bob creates this directory on demand") - it is the container's, not the host's, variable
        own = BASH_OWN | BOB_OWN
        if self.isolated(d):
            own = own | {"HOME"}
        if any(n not in declared for n in inst.env):
            self.had_undeclared = True
        for n in ("BOB_CWD", "PATH", "LD_LIBRARY_PATH"):
            if n not in d.env:
                self.fail("bob-variable-missing", "%s: %s is not set" % (where, n))
        for n in sorted(declared):
            got = d.env.get(n)
            hostv = self.host_visible.get(n)
            if n in strong:
                v = strong[n]
                if got is None:
                    self.fail("declared-variable-missing", "%s: %s is declared and set to %s but not visible" % (where, n, short(v)))
                elif got != b(v):
                    self.fail("value-differs", "%s: %s should be %s but the script sees %s" % (where, n, short(b(v)), short(got)))
                elif interesting(v):
                    self.delivered_interesting = True
            elif n in decl:
                # declared, but the package environment has no such variable ("It is not an error if a variable
                # listed here is unset"): only a whitelisted host variable of that name may show through
                if got is not None and (hostv is None or got != b(hostv)):
                    self.fail("host-variable-leak" if n in self.host else "unknown-variable-visible",
                              "%s: %s is declared but unset in the package environment, yet the script sees %s "
                              "(host: %s, whitelist %s)" % (where, n, short(got), short(self.host.get(n)), sorted(self.wl)))
                elif got is None and hostv is not None:
                    self.fail("whitelisted-variable-missing", "%s: host variable %s is whitelisted but not visible" % (where, n))
            else:
                cands = self.m.weak_candidates(inst.ri, kind, n)
                if got is None and hostv is not None:
                    self.fail("whitelisted-variable-missing", "%s: host variable %s is whitelisted but not visible" % (where, n))
                elif got is not None and hostv is not None and got == b(hostv) and None in cands:
                    pass            # unset in (one instance of) the package: the whitelisted host variable shows through
                elif not self.weak_ok(inst, kind, n, got, where):
                    self.fail("value-differs" if got is not None else "declared-variable-missing",
                              "%s: weak variable %s should be one of %s but the script sees %s" %
                              (where, n, short(sorted(map(repr, cands))), short(got)))
                elif got is not None and interesting(got.decode("utf-8", "replace")):
                    self.delivered_interesting = True
        for n in sorted(d.env):
            if n in declared or n in own:
                continue
            if n in self.host_visible:
                if d.env[n] != b(self.host_visible[n]):
                    self.fail("host-value-differs", "%s: whitelisted host variable %s is %s but the script sees %s" %
                              (where, n, short(b(self.host_visible[n])), short(d.env[n])))
                continue
            if n in inst.env and d.env[n] == b(inst.env[n]):
                self.fail("undeclared-variable-visible", "%s: %s=%s is set in the package environment but the step "
                          "declares only %s" % (where, n, short(d.env[n]), sorted(declared)))
            elif n in self.host:
                self.fail("host-variable-leak", "%s: host variable %s=%s is visible although it is neither declared nor "
                          "whitelisted (whitelist %s)" % (where, n, short(d.env[n]), sorted(self.wl)))
            elif n in inst.env:
                self.fail("undeclared-variable-visible", "%s: %s=%s is visible (package environment: %s) but the step "
                          "declares only %s" % (where, n, short(d.env[n]), short(inst.env[n]), sorted(declared)))
            else:
                self.fail("unknown-variable-visible", "%s: variable %s=%s comes from nowhere" % (where, n, short(d.env[n])))
        for n, v in sorted(self.host_visible.items()):
            if n in declared or n in own:
                continue
            if n not in d.env:
                self.fail("whitelisted-variable-missing", "%s: host variable %s is %s but not visible in the step" %
                          (where, n, "preserved by -E" if self.case["preserve"] else "whitelisted"))
        if d.env.get("PWD") is not None and d.env["PWD"] != d.env.get("BOB_CWD"):
            self.fail("cwd-differs", "%s: PWD %s != BOB_CWD %s" % (where, short(d.env["PWD"]), short(d.env.get("BOB_CWD"))))

    def isolated(self, d):
        return self.sandboxed and (self.m.slim or d.image_id != "?")

    # -- arguments --------------------------------------------------------------------
    def stable_paths(self):
        return self.sandboxed and self.case["sandbox"] in ("yes", "strict")

    def check_args(self, inst, kind, d, where):
        exp = self.m.args_of(inst, kind)
        if len(exp) != len(d.args):
            self.fail("argument-count", "%s: expected %d arguments (%s) but got %d: %r" %
                      (where, len(exp), ["/".join(e[1].path) + ":" + e[2] if e[0] == "step" else "invalid" for e in exp],
                       len(d.args), [a[0] for a in d.args]))
        for k, (e, (apath, aid, awr)) in enumerate(zip(exp, d.args)):
            if e[0] == "invalid":
                # "If no checkout step was provided, $1 will point to some invalid path."
                if aid != "?" or apath in self.dumps:
                    self.fail("wrong-argument", "%s: $%d should be an invalid path (no checkout step) but is %s" % (where, k + 1, apath))
                continue
            if aid == "?":
                self.fail("argument-not-a-step-result", "%s: $%d = %s holds no step result" % (where, k + 1, apath))
            if aid != apath and not self.stable_paths():
                self.fail("argument-id-differs", "%s: $%d is %s but the directory holds the result of %s" % (where, k + 1, apath, aid))
            self.verify(e[1], e[2], aid, "$%d of %s %s" % (k + 1, "/".join(inst.path), kind))

    # -- tools ------------------------------------------------------------------------
    def check_tools(self, inst, kind, d, where):
        tools = inst.tools[kind]
        path = d.env.get("PATH", b"").decode("utf-8", "surrogateescape").split(":")
        ntools = len(tools)
        if d.image_id != "?":
            tail_exp = ["/usr/local/bin", "/usr/bin", "/bin"]        # provideSandbox paths "completely replace $PATH"
        elif "PATH" in self.host_visible:
            tail_exp = self.host_visible["PATH"].split(":")
        else:
            tail_exp = None
        head, tail = path[:ntools], path[ntools:]
        if tail_exp is not None and tail != tail_exp:
            self.fail("path-differs", "%s: PATH is %r; expected %d tool directories followed by %r" % (where, path, ntools, tail_exp))
        if [x[0] for x in d.paths] != path:
            raise AssertionError("recorder: PATH entries %r vs %r" % (d.paths, path))
        ok = None
        for perm in itertools.permutations(tools):
            roots = []
            for t, (entry, iddir, pid) in zip(perm, d.paths[:ntools]):
                if pid == "?" or entry != iddir + "/" + t.path:
                    break
                dd = self.lookup(pid, where)
                if dd is None or dd.recipe != rname(t.provider.ri) or dd.kind != "package":
                    break
                roots.append((iddir, pid))
            else:
                ok = (perm, roots)
                break
        if ok is None:
            self.fail("tool-not-on-path", "%s: declared tools %r (relative paths %r) but PATH is %r" %
                      (where, [t.name for t in tools], [t.path for t in tools], path))
        perm, roots = ok
        libs = [root + "/" + l for t, (root, _) in zip(perm, roots) for l in t.libs]
        got = d.env.get("LD_LIBRARY_PATH", b"").decode("utf-8", "surrogateescape")
        if got != ":".join(libs):
            # tools in another order than in PATH would be fine as well
            alts = {":".join(r_ + "/" + l for t, (r_, _) in pp for l in t.libs)
                    for pp in itertools.permutations(list(zip(perm, roots)))}
            if got not in alts:
                self.fail("library-path-differs", "%s: LD_LIBRARY_PATH is %s, expected %r" % (where, short(got), ":".join(libs)))
        for t, (root, pid) in zip(perm, roots):
            if pid != root and not self.stable_paths():
                self.fail("argument-id-differs", "%s: tool directory %s holds the result of %s" % (where, root, pid))
            self.verify(t.provider, "package", pid, "tool %s of %s %s" % (t.name, "/".join(inst.path), kind))
        if tools:
            self.labels.add("tools-on-path:%d" % len(tools))
        if libs:
            self.labels.add("libs")

    # -- sandbox ----------------------------------------------------------------------
    def check_sandbox(self, inst, kind, d, where):
        if not self.isolated(d):
            return
        self.labels.add("step-isolated")
        # what may be visible: own workspace, arguments, tools, sandbox image, earlier steps of the package
        for apath, aid, awr in d.args:
            if awr:
                self.fail("sandbox-argument-writable", "%s: the script could create a file in its argument %s" % (where, apath))
        own = d.cwd
        for p, (exists, writable) in sorted(d.probes.items()):
            if p == "/tmp":
                if exists:
                    self.fail("sandbox-tmp-not-private", "%s: a file created in /tmp by an earlier step is visible" % where)
                if not writable:
                    self.fail("sandbox-tmp-not-writable", "%s: /tmp is not writable" % where)
                continue
            if p == own:
                if not writable:
                    self.fail("sandbox-own-workspace-not-writable", "%s: %s" % (where, p))
                continue
            if writable:
                self.fail("sandbox-foreign-writable", "%s: the script could create a file in %s (own workspace %s)" % (where, p, own))
            if exists and os.path.basename(p) == "outside":
                continue        # not a project workspace: the slim sandbox shows the host file system read-only
            if exists:
                ds = [x for xs in self.dumps.values() for x in xs if x.workspace == p]
                if not self.may_see(inst, kind, d, ds[0] if ds else None, p):
                    self.fail("sandbox-foreign-visible", "%s: %s is visible inside the sandbox but is no declared dependency "
                              "(arguments %r)" % (where, p, [a[0] for a in d.args]))

    def may_see(self, inst, kind, d, other, p):
        if other is None:
            return False
        argpaths = {a[0] for a in d.args}
        if other.cwd in argpaths:
            return True
        path = d.env.get("PATH", b"").decode("utf-8", "surrogateescape").split(":")
        if any(x.startswith(other.cwd + "/") for x in path[:len(inst.tools[kind])]):
            return True
        # earlier steps of the same package: the arguments of my first argument, transitively
        cur = d
        while cur is not None and cur.kind != "checkout" and cur.args:
            nxt = self.lookup(cur.args[0][0], "chain")
            if nxt is None:
                break
            if nxt is other:
                return True
            cur = nxt
        if d.image_id != "?" and other.cwd == d.image_id:
            return True
        return False

    # -- fingerprints -----------------------------------------------------------------
    def check_fingerprints(self, records):
        for rec in records:
            ri = int(rec["recipe"][1:])
            r = self.case["recipes"][ri]
            fpv = set(r["fingerprint"] or [])
            where = "fingerprint script of %s" % rec["recipe"]
            env = rec["env"]
            for n in sorted(env):
                if n in fpv or n in BASH_OWN or n == "BOB_CWD":
                    continue
                if n in self.host_visible:
                    if env[n] != b(self.host_visible[n]):
                        self.fail("host-value-differs", "%s: %s is %s, script sees %s" % (where, n, short(self.host_visible[n]), short(env[n])))
                    continue
                if n in self.host and env[n] == b(self.host[n]):
                    self.fail("host-variable-leak", "%s: host variable %s=%s is visible (whitelist %s)" % (where, n, short(env[n]), sorted(self.wl)))
                else:
                    self.fail("undeclared-variable-visible", "%s: %s=%s is visible but fingerprintVars is %s" % (where, n, short(env[n]), sorted(fpv)))
            for n, v in self.host_visible.items():
                if n not in env and n not in fpv and n not in BASH_OWN:
                    self.fail("whitelisted-variable-missing", "%s: host variable %s is not visible" % (where, n))
            # the record must be the fingerprintVars subset of a build or package step of an instance of the recipe
            # ("Only variables that are selected by {checkout,build,package}Vars can be used.")
            matched = False
            for inst in self.m.insts:
                if inst.ri != ri:
                    continue
                for kind in ("build", "package"):
                    okay = True
                    for n in fpv:
                        got = env.get(n)
                        hostv = self.host_visible.get(n)
                        if n in inst.strong[kind]:
                            okay = okay and got == b(inst.strong[kind][n])
                        elif n in inst.weak[kind]:
                            okay = okay and (self.weak_ok(inst, kind, n, got, where) or
                                             (hostv is not None and got == b(hostv)))
                        else:
                            okay = okay and (got is None if hostv is None else got == b(hostv))
                    matched = matched or okay
            if not matched:
                self.fail("fingerprint-environment-differs", "%s: the script saw %s which is the fingerprintVars subset of no "
                          "step of this recipe" % (where, short({k: v for k, v in env.items() if k in fpv})))
            if any(interesting(v.decode("utf-8", "replace")) for k, v in env.items() if k in fpv):
                self.labels.add("fingerprint-special-value")
            self.labels.add("fingerprint-dumped")

# =======================================================================================
_userns = None
def userns_ok():
    global _userns
    if _userns is None:
        helper = os.path.join(vlib.REPO, "bin", "bob-namespace-sandbox")
        try:
            if not os.path.exists(helper):
                # the helper is compiled by Bob on first use (bob.develop.make): ask Bob for it
                from bob.invoker import getSandboxHelperPath
                helper = getSandboxHelperPath()
            _userns = subprocess.run([helper, "-C"], stdout=subprocess.DEVNULL, stderr=subprocess.DEVNULL).returncode == 0
        except Exception:
            _userns = False
    return _userns

_stdin_done = False
def detach_stdin():
    """bobproc.direct lets step and fingerprint processes inherit the harness' stdin.  `bash -c` (fingerprint scripts)
    sources ~/.bashrc when stdin is a socket ("run by rshd/sshd" heuristics), which would import variables of the
    machine this harness happens to run on.  The real bob script is started with stdin=/dev/null as well."""
    global _stdin_done
    if not _stdin_done:
        fd = os.open(os.devnull, os.O_RDONLY)
        os.dup2(fd, 0)
        os.close(fd)
        _stdin_done = True

def run_case(ctx, case, confirm=False):
    run = bobproc.script if confirm else bobproc.direct
    detach_stdin()
    base = ctx.tmpdir()
    root = os.path.join(base, "p")
    os.makedirs(root)
    os.makedirs(os.path.join(base, "outside"))
    try:
        sandboxed = case["sandbox"] == "no" or userns_ok()
        model = Model(case, root)
        model.build()
        render(case, root, sandboxed)
        argv = argv_of(case, sandboxed)
        host_extra = {k: v for k, v in case["host"]}
        r = run(root, argv, env_extra=host_extra)
        labels = ["mode:" + case["mode"], "sandbox:" + case["sandbox"] + ("+image" if case["image"] else ""),
                  "recipes:%d" % len(case["recipes"]), "instances:%d" % len(model.insts)]
        if not sandboxed:
            labels.append("skipped_no_userns")
        if case["preserve"]: labels.append("-E")
        if case["dash_e"]: labels.append("-e")
        if case["whitelist"]: labels.append("whitelist")
        if case["whitelist_remove"]: labels.append("whitelistRemove")
        if case["defines"]: labels.append("site:-D")
        if case["default_env"]: labels.append("site:default.yaml")
        for rr in [case["recipes"][ri] for ri in sorted({i.ri for i in model.insts})]:
            for f, l in (("env", "environment"), ("private", "privateEnvironment"), ("meta", "metaEnvironment"),
                         ("provide_vars", "provideVars")):
                if rr[f]: labels.append("site:" + l)
            if any(d["env"] for d in rr["deps"]): labels.append("site:dependency-environment")
            if any(t["env"] for t in rr["provide_tools"]): labels.append("site:tool-environment")
            if any(rr["weak"][k] for k in KINDS): labels.append("weak-vars")
            if rr["inherit"]: labels.append("class")
            if rr["fingerprint"] is not None: labels.append("fingerprintScript")
            if any(not d["inherit"] for d in rr["deps"]): labels.append("inherit:false")
            if any(d["forward"] for d in rr["deps"]): labels.append("forward")
            if any(d["checkoutDep"] for d in rr["deps"]): labels.append("checkoutDep")
        labels = sorted(set(labels))
        allvals = [v for i in model.insts for k in KINDS for v in i.strong[k].values()]
        for c, l in (("'", "char:squote"), ('"', "char:dquote"), ("$", "char:dollar"), ("\\", "char:backslash"),
                     ("\n", "char:newline"), ("\x01", "char:x01"), ("\x7f", "char:x7f"), ("`", "char:backtick"),
                     ("\t", "char:tab"), ("!", "char:bang"), ("*", "char:glob")):
            if any(c in v for v in allvals): labels.append(l)
        if any(ord(ch) > 0xffff for v in allvals for ch in v): labels.append("char:astral")
        if any(0x7f < ord(ch) <= 0xffff for v in allvals for ch in v): labels.append("char:non-ascii")
        if any(v != v.strip() for v in allvals): labels.append("char:outer-blank")
        sample = {"recipes": len(case["recipes"]), "instances": len(model.insts), "argv": argv[:12],
                  "host": sorted(k for k, _ in case["host"])}
        if r.rc != 0:
            # Bob refuses the project (e.g. incompatible variants through provideDeps): nothing to judge, but an
            # internal error is never acceptable
            if r.rc not in (1,) or "Traceback (most recent call last)" in r.err:
                ctx.record(jhash(case), False, labels + ["bob-crashed"], sample)
                ctx.fail("internal-error", "bob %s: exit status %d\n%s" % (" ".join(argv[:6]), r.rc, r.err[-1500:]), case)
            kind = classify_reject(r)
            ctx.record(jhash(case), False, labels + ["rejected:" + kind], sample)
            if kind == "other":
                ctx.fail("build-failed", "bob %s failed although the project is valid:\n%s\n%s" %
                         (" ".join(argv[:8]), r.out[-1200:], r.err[-1200:]), case)
            return
        dumps, bad = collect(root)
        if bad:
            ctx.fail("truncated-dump", "step finished successfully but its dump is incomplete: %r" % bad, case)
        orc = Oracle(ctx, case, model, dumps, sandboxed)
        # the root package: exactly one package step dump of r0
        roots = [d for ds in dumps.values() for d in ds if d.recipe == "r0" and d.kind == "package"]
        if len(roots) != 1:
            ctx.record(jhash(case), False, labels, sample)
            ctx.fail("root-package-dumps", "expected one executed package step of r0, found %d" % len(roots), case)
        try:
            orc.verify(model.top, "package", roots[0].cwd, "root")
            # every executed step must have been reached from the root through declared dependencies
            reached = {k for (_, _, k) in orc.done}
            extra = sorted(set(dumps) - reached)
            if extra:
                orc.fail("undeclared-step-executed", "steps were executed that no declared dependency leads to: %r" %
                         [(dumps[k][0].recipe, dumps[k][0].kind, k) for k in extra])
            orc.check_fingerprints(parse_fp(root))
        finally:
            nontriv = orc.delivered_interesting and orc.had_undeclared
            ctx.record(jhash(case), nontriv, labels + sorted(orc.labels), sample)
            ctx.extra["steps_checked"] = ctx.extra.get("steps_checked", 0) + orc.steps_checked
    finally:
        vlib.rmtree(base)

def classify_reject(r):
    e = r.err + r.out
    if "Incompatible variants of package" in e:
        return "incompatible-variants"
    if "Duplicate dependency" in e:
        return "duplicate-dependency"
    return "other"

_seen = set()
def check(ctx, case):
    # every Hypothesis batch starts with the same minimal example: a case that held is not executed again in this shard
    key = jhash(case)
    if key in _seen:
        return
    try:
        run_case(ctx, case)
    except Violation as v:
        saved = (ctx.evaluations, set(ctx.nontrivial), ctx.labels.copy(), list(ctx.samples))
        try:
            run_case(ctx, case, confirm=True)
        except Violation as w:
            ctx.evaluations, ctx.nontrivial, ctx.labels, ctx.samples = saved
            raise w
        ctx.evaluations, ctx.nontrivial, ctx.labels, ctx.samples = saved
        ctx.label("unconfirmed-in-fresh-process:" + v.signature)
    _seen.add(key)

def shard(ctx):
    bobproc.warm()
    run_hypothesis(ctx, case_st(ctx.quick()), lambda c: check(ctx, c), ctx.n(1600, 16000), shrink=False,
                   minimize=("host", "defines", "default_env", "whitelist", "whitelist_remove", "dash_e"))

def replay(ctx, case):
    run_case(ctx, case, confirm=True)

FINDINGS = {}
