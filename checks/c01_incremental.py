"""C01 - Incremental build equals clean build."""
import os, shutil
from hypothesis import strategies as st

import vlib
from vlib import bobproc, projgen, treecanon, scripts
from vlib.runner import run_hypothesis, Violation, jhash

PROP = "C01"
LEVEL = "exploration"
RULE = ("Generated projects (2-7 recipes, classes with Setup/Script/Finalize fragments, multiPackages, provided "
        "vars/deps/tools, import sources, conditions, -D defines) and edit histories of 1-6 edits (script text, "
        "fragment placement, variable values at every definition site, consumed-variable lists incl. weak, dependency "
        "add/remove/reorder/re-parameterise, provided vars/deps, tool path/libs/env/use, source file add/modify/"
        "delete, -D, default.yaml, class scripts, revert). The same build command (dev or release, -j1/2/4) runs "
        "after every edit in one workspace; afterwards the final state is built from scratch at another path. "
        "Oracle: every package result of the clean build exists in the incremental workspace with identical canonical "
        "tree (recorder scripts make content a function of everything a step is declared to consume); a repeated "
        "build of the unchanged project starts no build/package script and no deterministic checkout (event log). "
        "Non-trivial: some incremental invocation executed >=1 step and skipped >=1; distinct = hash of (model, "
        "history, mode, jobs).")
ASSUMPTIONS = ["step scripts are deterministic and rewrite a fixed file set (recorder scripts)",
               "all policies at their new behaviour (bobMinimumVersion 1.0)",
               "Bob runs inside the harness process (no fork); every suspected violation is re-run with the real "
               "`bob` script in fresh processes before it is reported"]
TIME_BUDGET = {"quick": 240, "thorough": 1700}
BATCH = 16

def build_argv(model, mode, jobs):
    argv = [mode, "r0"] + projgen.defines_argv(model)
    if jobs:
        argv += ["-j", str(jobs)]
    return argv

def env_for(root):
    return {"VERIF_ROOT": root, "VERIF_EVLOG": os.path.join(root, "events.log"), "VERIF_SW": os.path.join(root, "switches")}

def dist_map(run, root, model, mode):
    """package stack -> dist dir (existing ones only)"""
    argv = ["query-path", "-q", "-f", "{name}\t{dist}", "--develop" if mode == "dev" else "--release"] + \
           projgen.defines_argv(model) + ["//*"]
    r = run(root, argv, env_extra=env_for(root))
    out = {}
    if r.rc != 0:
        return None, r
    for line in r.out.splitlines():
        if "\t" in line:
            name, d = line.split("\t", 1)
            out[name] = d
    return out, r

def starts(root):
    ev = scripts.parse_events(os.path.join(root, "events.log"))
    return [k for what, k, _ in ev if what == "start"]

def reset_events(root):
    try: os.unlink(os.path.join(root, "events.log"))
    except FileNotFoundError: pass

def kind_of(key):
    """workspace key -> 'src' | 'build' | 'dist'"""
    parts = key.split("_")
    if parts[0] == "dev":
        return parts[1]
    # release: work_<pkg...>_<kind>_<n>_workspace
    for p in reversed(parts):
        if p in ("src", "build", "dist"):
            return p
    return "?"

def det_checkout_recipes(model):
    """recipes whose checkout the model classifies deterministic (declared, no import SCM)"""
    out = set()
    for r in model["recipes"]:
        b = r["body"]
        if (b.get("steps") or {}).get("checkout", {}).get("script") is not None and b.get("checkoutDeterministic") \
                and not b.get("import") and not any(d.get("checkoutDep") for d in b.get("depends", [])) and not r.get("multi"):
            out.add(r["name"])   # (checkout-time dependencies would have to be deterministic too: such recipes are left out)
    return out

def run_case(ctx, case, confirm=False):
    run = bobproc.script if confirm else bobproc.direct
    model, edits, mode, jobs = case["model"], case["edits"], case["mode"], case["jobs"]
    if case.get("toolchains") is not None:
        model = projgen.add_toolchains(model, case["toolchains"])
    if case.get("variants"):
        model = projgen.add_variants(model, case["variants"])
    base = ctx.tmpdir()
    W = os.path.join(base, "w")
    X = os.path.join(base, "elsewhere", "deeper", "x")
    os.makedirs(W); os.makedirs(X)
    try:
        states = [(model, "initial")] + projgen.apply_history(model, edits)
        full_starts = None
        incr = []
        rejected = 0
        for n, (m, desc) in enumerate(states):
            projgen.render(m, W)
            reset_events(W)
            r = run(W, build_argv(m, mode, jobs), env_extra=env_for(W))
            s = starts(W)
            if r.rc not in (0, 1):
                ctx.fail("internal-error", "state %d (%s): exit status %d\n%s" % (n, desc, r.rc, r.err[-1500:]), case)
            if r.rc != 0:
                rejected += 1
            if n == 0:
                full_starts = len(s)
            else:
                incr.append((len(s), r.rc))
        final = states[-1][0]
        # (ii) unchanged re-run
        reset_events(W)
        r_again = run(W, build_argv(final, mode, jobs), env_extra=env_for(W))
        again = starts(W)
        # (iii) clean build elsewhere
        projgen.render(final, X)
        r_clean = run(X, build_argv(final, mode, jobs), env_extra=env_for(X))
        clean_starts = len(starts(X))
        nontriv = any(rc == 0 and 0 < k < max(full_starts or 0, clean_starts) for k, rc in incr)
        labels = ["mode:" + mode, "jobs:%s" % jobs, "edits:%d" % len(edits)] + ["edit:" + e[0] for e in edits]
        if rejected: labels.append("some-state-rejected")
        sample = {"recipes": len(model["recipes"]), "edits": [d for _, d in states[1:]], "mode": mode, "jobs": jobs,
                  "steps_run": [full_starts] + [k for k, _ in incr], "clean_steps": clean_starts}
        if r_clean.rc != 0:
            # the final state is rejected by Bob: it must be rejected in the incremental workspace alike
            ctx.record(jhash(case), False, labels + ["final-state-rejected"], sample)
            if r_again.rc == 0:
                ctx.fail("incremental-accepts-rejected-state", "clean build of the final state fails (%s) but the incremental "
                         "workspace builds it" % (r_clean.err.strip().splitlines() or ["?"])[-1][:200], case)
            return
        ctx.record(jhash(case), nontriv, labels, sample)
        if r_again.rc != 0:
            ctx.fail("incremental-fails", "the final state builds from scratch but fails in the incremental workspace: %s" %
                     r_again.err[-800:], case)
        # oracle (b)
        bad = [k for k in again if kind_of(k) in ("build", "dist")]
        if bad:
            ctx.fail("rerun-executes-steps", "an immediately repeated build of the unchanged project executed %r" % bad, case)
        det = det_checkout_recipes(final)
        badsrc = [k for k in again if kind_of(k) == "src" and any(("_%s_" % d) in k for d in det)
                  and not any(r["multi"] for r in final["recipes"] if r["name"] in k)]
        if badsrc:
            ctx.fail("rerun-executes-deterministic-checkout", "repeated build re-ran deterministic checkout(s) %r" % badsrc, case)
        # oracle (a)
        dw, rq = dist_map(run, W, final, mode)
        dx, rq2 = dist_map(run, X, final, mode)
        if dw is None or dx is None:
            ctx.fail("query-failed", "query-path failed: %s %s" % (rq.err[-300:], rq2.err[-300:]), case)
        for name, dpath in sorted(dx.items()):
            cx = treecanon.canon(os.path.join(X, dpath))
            if name not in dw:
                ctx.fail("result-missing", "package %s was built by the clean build but has no result in the incremental workspace" % name, case)
            cw = treecanon.canon(os.path.join(W, dw[name]))
            if cw != cx:
                detail = treecanon.diff(cw, cx, 3)
                first = ""
                try:
                    a = open(os.path.join(W, dw[name], "result.txt")).read().splitlines()
                    b = open(os.path.join(X, dpath, "result.txt")).read().splitlines()
                    for i, (la, lb) in enumerate(zip(a + [""] * len(b), b + [""] * len(a))):
                        if la != lb:
                            first = "first differing line %d: incremental %r / clean %r" % (i, la, lb); break
                except OSError:
                    pass
                ctx.fail("result-differs", "package %s: incremental result differs from clean build (%s) %s; edits: %r" %
                         (name, detail, first, [d for _, d in states[1:]]), case)
    finally:
        vlib.rmtree(base)

def case_st(quick):
    return st.fixed_dictionaries({
        "model": projgen.model_st(2, 6 if quick else 7, richness=1),
        "edits": st.lists(projgen.build_edit_st, min_size=1, max_size=4 if quick else 7),
        "mode": st.sampled_from(["dev", "dev", "build"]),
        "jobs": st.sampled_from([None, None, 2, 4]),
        "toolchains": st.sampled_from([None, None, None, 0, 1, 2, 3, 4, 5]),
        "variants": st.sampled_from([None, None, None, 3, 4]),
    })

def check(ctx, case):
    try:
        run_case(ctx, case)
    except Violation as v:
        try:
            run_case(ctx, case, confirm=True)
        except Violation as w:
            raise w
        ctx.label("unconfirmed-in-fresh-process:" + v.signature)

def shard(ctx):
    bobproc.warm()
    run_hypothesis(ctx, case_st(ctx.quick()), lambda c: check(ctx, c), ctx.n(960, 16000), shrink=False, minimize=("edits",))

def replay(ctx, case):
    run_case(ctx, case, confirm=True)

FINDINGS = {}
