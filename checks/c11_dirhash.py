"""C11 - Directory hashes are content exact and cache transparent."""
import os, stat, shutil, hashlib
from hypothesis import strategies as st

from vlib import treecanon
import vlib
from vlib.runner import run_hypothesis, Violation, jhash

PROP = "C11"
LEVEL = "exploration"
RULE = ("Generated operation sequences (create/modify/same-size rewrite/chmod/delete/rename/mkdir/symlink/"
        "same-size rewrite with restored mtime (cp -p)/retarget/type replacement/fifo/hard link/touch/SCM-dir churn) on a real directory; every mutation gets a "
        "strictly increasing mtime (logical clock). After every operation hashDirectory(tree, index) must equal "
        "hashDirectory(tree) and, over all states of the run plus a re-created copy (other creation order, other "
        "timestamps), canonical form (names, types, permission bits, contents, link targets) <-> hash must be a "
        "bijection. Non-trivial: a cached hash computed when the index held >=3 entries and the operation touched "
        "a path sorting before the last index entry; distinct = hash of the operation list.")
ASSUMPTIONS = ["every modification changes stat data (mtime set from a logical clock; ctime is the kernel's)",
               "runs as root: unreadable modes do not occur"]
TIME_BUDGET = {"quick": 150, "thorough": 900}

NAMES = [b"a", b"a.b", b"a-b", b"a0", b"b", b"A", "é".encode(), b"a b", b"x", b"\xff\xfe", b"a!", b"z" * 40,
         b".git", b".svn", b"BaseDirList.txt~", b"c", b"ab"]
SIZES = [0, 1, 2, 100, 16383, 16384, 16385, 65537]
MODES = [0o644, 0o755, 0o600, 0o444, 0o4755, 0o640, 0o000, 0o1777, 0o700]
LINK_TARGETS = [b"a", b"../a", b"/abs/path", b"", b"b/c", b"\xc3\xa9"]
T0 = 1_500_000_000 * 10**9

def content(seed, size):
    return hashlib.shake_128(b"%d" % seed).digest(size) if size else b""

class Tree:
    def __init__(self, root):
        self.root = os.fsencode(root)
        self.clock = T0
        os.makedirs(self.root)

    def tick(self, path):
        self.clock += 10_000_000
        try:
            os.utime(path, ns=(self.clock, self.clock), follow_symlinks=False)
        except OSError:
            pass

    def listing(self):
        """sorted relative paths with kind; SCM metadata directories are not entered"""
        out = []
        def walk(rel):
            d = os.path.join(self.root, rel) if rel else self.root
            for n in sorted(os.listdir(d)):
                r = os.path.join(rel, n) if rel else n
                m = os.lstat(os.path.join(self.root, r)).st_mode
                k = "d" if stat.S_ISDIR(m) else "f" if stat.S_ISREG(m) else "l" if stat.S_ISLNK(m) else "o"
                if k == "d" and n in treecanon.IGNORE_DIRS:
                    out.append((r, "scm"))
                    continue
                out.append((r, k))
                if k == "d":
                    walk(r)
        walk(b"")
        return out

    def p(self, rel):
        return os.path.join(self.root, rel) if rel else self.root

def pick(lst, i):
    return lst[i % len(lst)] if lst else None

def apply(t, op):
    """apply one operation; returns the relative path primarily touched (or None)"""
    L = t.listing()
    dirs = [b""] + [r for r, k in L if k == "d"]
    files = [r for r, k in L if k == "f"]
    links = [r for r, k in L if k == "l"]
    nodes = [r for r, k in L if k != "scm"]
    kind = op[0]
    if kind == "mkfile":
        d, n = pick(dirs, op[1]), pick(NAMES, op[2])
        if n in treecanon.IGNORE_DIRS and op[3] % 2:      # a *file* called .git is content
            pass
        r = os.path.join(d, n) if d else n
        if os.path.lexists(t.p(r)): return None
        with open(t.p(r), "wb") as f:
            f.write(content(op[4], pick(SIZES, op[3])))
        os.chmod(t.p(r), pick(MODES, op[5]))
        t.tick(t.p(r)); return r
    if kind == "modify":
        r = pick(files, op[1])
        if r is None: return None
        old = os.lstat(t.p(r)).st_size
        size = pick(SIZES, op[2])
        if size == old: size = old + 1
        os.chmod(t.p(r), stat.S_IMODE(os.lstat(t.p(r)).st_mode) | 0o200)
        with open(t.p(r), "wb") as f:
            f.write(content(op[3], size))
        t.tick(t.p(r)); return r
    if kind == "rewrite":
        r = pick(files, op[1])
        if r is None: return None
        size = os.lstat(t.p(r)).st_size
        if size == 0: return None
        with open(t.p(r), "rb") as f:
            old = f.read()
        new = content(op[2], size)
        if new == old: new = bytes([old[0] ^ 1]) + old[1:]
        with open(t.p(r), "r+b") as f:
            f.write(new)
        t.tick(t.p(r)); return r
    if kind == "rewrite_keep_mtime":
        # cp -p / rsync -t / tar: new content, same size, old mtime restored - only ctime tells
        r = pick(files, op[1])
        if r is None: return None
        st0 = os.lstat(t.p(r))
        if st0.st_size == 0: return None
        with open(t.p(r), "rb") as f:
            old = f.read()
        new = content(op[2], st0.st_size)
        if new == old: new = bytes([old[0] ^ 1]) + old[1:]
        with open(t.p(r), "r+b") as f:
            f.write(new)
        os.utime(t.p(r), ns=(st0.st_atime_ns, st0.st_mtime_ns))
        import time
        for _ in range(200):            # the premise: the modification changed the stat data
            if os.lstat(t.p(r)).st_ctime_ns != st0.st_ctime_ns: break
            time.sleep(0.002); os.utime(t.p(r), ns=(st0.st_atime_ns, st0.st_mtime_ns))
        else:
            t.tick(t.p(r))
        return r
    if kind == "chmod":
        r = pick([x for x in nodes if x not in links], op[1])
        if r is None: return None
        os.chmod(t.p(r), pick(MODES, op[2]))
        t.tick(t.p(r)); return r
    if kind == "delete":
        r = pick(nodes, op[1])
        if r is None: return None
        if os.path.isdir(t.p(r)) and not os.path.islink(t.p(r)): shutil.rmtree(t.p(r))
        else: os.unlink(t.p(r))
        return r
    if kind == "rename":
        r = pick(nodes, op[1]); d = pick(dirs, op[2]); n = pick(NAMES, op[3])
        if r is None: return None
        dst = os.path.join(d, n) if d else n
        if os.path.lexists(t.p(dst)): return None
        if (dst + b"/").startswith(r + b"/"): return None
        os.rename(t.p(r), t.p(dst))
        t.tick(t.p(dst)); return min(r, dst)
    if kind == "mkdir":
        d, n = pick(dirs, op[1]), pick(NAMES, op[2])
        if n in treecanon.IGNORE_DIRS: return None
        r = os.path.join(d, n) if d else n
        if os.path.lexists(t.p(r)): return None
        os.mkdir(t.p(r)); os.chmod(t.p(r), pick(MODES, op[3]) | 0o700)
        t.tick(t.p(r)); return r
    if kind == "symlink":
        d, n = pick(dirs, op[1]), pick(NAMES, op[2])
        r = os.path.join(d, n) if d else n
        if os.path.lexists(t.p(r)): return None
        os.symlink(pick(LINK_TARGETS, op[3]) or b".", t.p(r))
        t.tick(t.p(r)); return r
    if kind == "retarget":
        r = pick(links, op[1])
        if r is None: return None
        old = os.readlink(t.p(r))
        new = pick([b"a", b"../a", b"/abs/path", b"b/c", b"q"], op[2])
        if new == old: new = old + b"x"
        os.unlink(t.p(r)); os.symlink(new, t.p(r))
        t.tick(t.p(r)); return r
    if kind == "replace":
        r = pick(nodes, op[1])
        if r is None: return None
        if os.path.isdir(t.p(r)) and not os.path.islink(t.p(r)): shutil.rmtree(t.p(r)); was = "d"
        else:
            was = "l" if os.path.islink(t.p(r)) else "f"
            os.unlink(t.p(r))
        new = pick([k for k in "fdl" if k != was], op[2])
        if new == "f":
            with open(t.p(r), "wb") as f: f.write(content(op[3], 5))
        elif new == "d":
            os.mkdir(t.p(r))
        else:
            os.symlink(b"a", t.p(r))
        t.tick(t.p(r)); return r
    if kind == "fifo":
        d, n = pick(dirs, op[1]), pick(NAMES, op[2])
        r = os.path.join(d, n) if d else n
        if os.path.lexists(t.p(r)): return None
        os.mkfifo(t.p(r)); t.tick(t.p(r)); return r
    if kind == "touch":
        r = pick(nodes, op[1])
        if r is None: return None
        t.tick(t.p(r)); return r
    if kind == "hardlink":
        r = pick(files, op[1]); d = pick(dirs, op[2]); n = pick(NAMES, op[3])
        if r is None: return None
        dst = os.path.join(d, n) if d else n
        if os.path.lexists(t.p(dst)): return None
        os.link(t.p(r), t.p(dst)); return dst
    if kind == "scmchurn":
        d = pick(dirs, op[1]); n = pick([b".git", b".svn", b".portage-cache"], op[2])
        r = os.path.join(d, n) if d else n
        if os.path.lexists(t.p(r)) and not os.path.isdir(t.p(r)): return None
        os.makedirs(t.p(r), exist_ok=True)
        with open(os.path.join(t.p(r), b"obj%d" % (op[3] % 3)), "wb") as f:
            f.write(content(op[3], 10))
        return None
    if kind == "rehash":
        return None
    raise AssertionError(kind)

def recreate(src_root, dst_root, reverse):
    """build a copy with equal canonical form in another creation order and other timestamps"""
    src_root, dst_root = os.fsencode(src_root), os.fsencode(dst_root)
    os.makedirs(dst_root)
    def walk(rel):
        d = os.path.join(src_root, rel) if rel else src_root
        names = sorted(os.listdir(d), reverse=reverse)
        for n in names:
            r = os.path.join(rel, n) if rel else n
            s, o = os.path.join(src_root, r), os.path.join(dst_root, r)
            m = os.lstat(s).st_mode
            if stat.S_ISDIR(m):
                os.mkdir(o)
                walk(r)
                os.chmod(o, stat.S_IMODE(m))
            elif stat.S_ISLNK(m):
                os.symlink(os.readlink(s), o)
            elif stat.S_ISFIFO(m):
                os.mkfifo(o); os.chmod(o, stat.S_IMODE(m))
            else:
                with open(s, "rb") as f, open(o, "wb") as g:
                    g.write(f.read())
                os.chmod(o, stat.S_IMODE(m))
                os.utime(o, ns=(T0 - 5 * 10**9, T0 - 7 * 10**9))
    walk(b"")

def run_case(ctx, case):
    from bob.utils import hashDirectory
    ops = case["ops"]
    base = ctx.tmpdir()
    t = Tree(os.path.join(base, "t"))
    index = os.path.join(base, "cache.bin")
    seen_c2h, seen_h2c = {}, {}
    nontriv = False
    try:
        for step, op in enumerate(ops):
            L0 = [r for r, k in t.listing() if k in ("f", "l")]
            touched = apply(t, op)
            if touched is not None and len(L0) >= 3 and touched < max(L0) and os.path.exists(index):
                nontriv = True
            h_cached = hashDirectory(os.fsdecode(t.root), index)
            h_plain = hashDirectory(os.fsdecode(t.root))
            c = treecanon.canon(t.root)
            cd = treecanon.digest(c)
            where = "after step %d %r" % (step, op)
            if h_cached != h_plain:
                ctx.fail("cache-differs", "%s: cached %s != uncached %s; tree=%r" %
                         (where, h_cached.hex(), h_plain.hex(), treecanon.describe(c)), case)
            if op[0] == "rehash":
                h2 = hashDirectory(os.fsdecode(t.root), index)
                if h2 != h_plain:
                    ctx.fail("cache-differs", "%s: second cached run %s != %s" % (where, h2.hex(), h_plain.hex()), case)
            if cd in seen_c2h and seen_c2h[cd][0] != h_plain:
                ctx.fail("equal-trees-different-hash", "%s: same canonical form as %s but hash differs" %
                         (where, seen_c2h[cd][1]), case)
            if h_plain in seen_h2c and seen_h2c[h_plain][0] != cd:
                ctx.fail("different-trees-equal-hash", "%s: hash equals that of state %s but trees differ: %r" %
                         (where, seen_h2c[h_plain][1], treecanon.diff(seen_h2c[h_plain][2], c)), case)
            seen_c2h.setdefault(cd, (h_plain, where))
            seen_h2c.setdefault(h_plain, (cd, where, c))
        # equal canonical form built differently -> equal hash
        for rev in (False, True):
            cp = os.path.join(base, "copy%d" % rev)
            recreate(t.root, cp, rev)
            hc = hashDirectory(cp)
            if treecanon.canon(cp) != treecanon.canon(t.root):
                raise AssertionError("harness: recreate() did not reproduce the tree")
            if ops and hc != h_plain:
                ctx.fail("equal-trees-different-hash", "re-created copy (reverse=%s) hashes %s, original %s" %
                         (rev, hc.hex(), h_plain.hex()), case)
    finally:
        vlib.rmtree(base)
    ctx.record(jhash(ops), nontriv, ["ops:%d" % min(len(ops) // 10 * 10, 40)] + ["op:" + o for o in {o[0] for o in ops}],
               {"ops": ops[:12]})

I = st.integers(0, 40)
op_st = st.one_of(
    st.tuples(st.just("mkfile"), I, I, I, I, I),
    st.tuples(st.just("mkfile"), I, I, I, I, I),
    st.tuples(st.just("modify"), I, I, I),
    st.tuples(st.just("rewrite"), I, I),
    st.tuples(st.just("rewrite_keep_mtime"), I, I),
    st.tuples(st.just("chmod"), I, I),
    st.tuples(st.just("delete"), I),
    st.tuples(st.just("rename"), I, I, I),
    st.tuples(st.just("mkdir"), I, I, I),
    st.tuples(st.just("symlink"), I, I, I),
    st.tuples(st.just("retarget"), I, I),
    st.tuples(st.just("replace"), I, I, I),
    st.tuples(st.just("fifo"), I, I),
    st.tuples(st.just("touch"), I),
    st.tuples(st.just("hardlink"), I, I, I),
    st.tuples(st.just("scmchurn"), I, I, I),
    st.tuples(st.just("rehash")),
).map(list)
mk_st = st.tuples(st.just("mkfile"), I, I, I, I, I).map(list)
case_st = st.builds(lambda pre, ops: {"ops": pre + ops},
                    st.lists(mk_st, min_size=0, max_size=6), st.lists(op_st, min_size=1, max_size=36))

def shard(ctx):
    run_hypothesis(ctx, case_st, lambda c: run_case(ctx, c), ctx.n(16000, 160000))

def replay(ctx, case):
    run_case(ctx, case)

FINDINGS = {}
