"""C07 - Binary artifacts are reused exactly when they are the right ones."""
import os, copy, shutil
from hypothesis import strategies as st

import vlib
from vlib import bobproc, projgen, treecanon, scripts
from vlib.runner import run_hypothesis, Violation, jhash
from checks import c01_incremental as C1

PROP = "C07"
LEVEL = "exploration"
RULE = ("An uploader builds generated project state S_A at path P_A with --upload into a file archive (optionally a "
        "third, unrelated state is uploaded first). A downloader builds S_B = S_A + 0-3 edits (script, variable, "
        "tool, dependency, source file, include, -D ...) at a different, differently long path P_B with a generated "
        "download mode (yes, deps, forced, forced-deps, forced-fallback, packages=<re>) and an equal or different "
        "emulated host fingerprint file (recipes with fingerprintScript read it); packages with relocatable: False "
        "record their absolute working directory. Oracle: (1) if the downloading build succeeds every package result "
        "equals a purely local build of S_B made beforehand at the SAME path P_B (then deleted); non-forced modes "
        "must succeed whenever the local build does; (2) if S_B == S_A and the fingerprint is equal, modes yes/forced "
        "execute no build/package script at all, deps modes only those of the top-level package. Non-trivial: at least "
        "one package was downloaded and at least one had to be built in the same invocation (mixed reuse), or the "
        "complete reuse case (2); distinct = hash of the case. ")
ASSUMPTIONS = ["file:// archive only", "the host fingerprint is emulated by a whitelisted file (VERIF_HOSTFP)",
               "Bob runs in the harness process; suspected violations are re-run with the real bob script"]
TIME_BUDGET = {"quick": 230, "thorough": 1700}
BATCH = 4

MODES = ["yes", "yes", "deps", "forced", "forced-deps", "forced-fallback", "packages=r[0-2].*", "packages=.*"]

def prep(model, arch, fp_idx, nonreloc_idx):
    m = copy.deepcopy(model)
    m["defaults"]["archive"] = {"backend": "file", "path": arch}
    m["record_pwd"] = True
    bodies = projgen._bodies(m)
    for i in fp_idx:
        lab, b, _ = bodies[i % len(bodies)]
        if (b.get("steps") or {}).get("build", {}).get("script") is not None:
            b["fp"] = True
    for i in nonreloc_idx:
        lab, b, _ = bodies[i % len(bodies)]
        b["relocatable"] = False
        b["shared"] = False
    return m

def env_for(root, fpfile):
    e = C1.env_for(root)
    e["VERIF_HOSTFP"] = fpfile
    return e

def stats(out):
    import re
    m = re.search(r"(\d+) packages? built, (\d+) downloaded", out)
    return (int(m.group(1)), int(m.group(2))) if m else (None, None)

def all_relocatable(project, model):
    """Build-Ids are location independent only for relocatable packages (tool providers are not, by default)"""
    from vlib import pkgdump
    from bob.errors import BobError
    with pkgdump.in_dir(project):
        try:
            rs, ps = pkgdump.load(project, model.get("defines"))
            ok = all(pkg.isRelocatable() for stack, pkg, via in pkgdump.walk(ps.getRootPackage(), 1500) if stack)
            ps.close()
            return ok
        except BobError:
            return False

def tool_reachable_recipes(model, where):
    """recipes of all packages that are (transitively) consumed through a tool or sandbox edge: the host fingerprint
    and the relocation tag of a tool deliberately do not propagate to the Build-Id of its users (documented in
    "Host dependency fingerprinting"), so such packages must not depend on the host / their location in this harness"""
    from vlib import pkgdump
    from bob.errors import BobError
    os.makedirs(where)
    projgen.render(model, where)
    out = set()
    try:
        with pkgdump.in_dir(where):
            rs, ps = pkgdump.load(where, model.get("defines"))
            seen = set()
            def closure(pkg):
                key = (pkg.getName(), pkg.getPackageStep().getVariantId())
                if key in seen:
                    return
                seen.add(key)
                out.add(pkg.getRecipe().getName())
                for s in (pkg.getCheckoutStep(), pkg.getBuildStep(), pkg.getPackageStep()):
                    if not s.isValid():
                        continue
                    for a in s.getArguments():
                        if a.isValid():
                            closure(a.getPackage())
                    for t in s.getTools().values():
                        closure(t.getStep().getPackage())
                    if s.getSandbox() is not None:
                        closure(s.getSandbox().getStep().getPackage())
            for stack, pkg, via in pkgdump.walk(ps.getRootPackage(), 1500):
                if not stack:
                    continue
                for s in (pkg.getCheckoutStep(), pkg.getBuildStep(), pkg.getPackageStep()):
                    if not s.isValid():
                        continue
                    for t in s.getTools().values():
                        closure(t.getStep().getPackage())
                    if s.getSandbox() is not None:
                        closure(s.getSandbox().getStep().getPackage())
            ps.close()
    except BobError:
        return None             # the recipes are rejected (possibly only when the graph is expanded)
    finally:
        vlib.rmtree(where)
    return out

def run_case(ctx, case, confirm=False):
    run = bobproc.script if confirm else bobproc.direct
    base = ctx.tmpdir()
    try:
        arch = os.path.join(base, "archive")
        PA = os.path.join(base, "a", "w")
        PB = os.path.join(base, "bbbbbbbbbbbbbbbb", "deeper", "workspace-b")
        fpa = os.path.join(base, "hostA"); fpb = os.path.join(base, "hostB")
        with open(fpa, "w") as f: f.write("libc 2.31\n")
        with open(fpb, "w") as f: f.write("libc 2.31\n" if case["samehost"] else "libc 2.99\n")
        nonreloc = list(case["nonreloc"])
        if case.get("both") and case["fp"]:
            nonreloc = [case["fp"][0]] + nonreloc          # a package that is fingerprinted and not relocatable
        SA = prep(case["model"], arch, case["fp"], nonreloc)
        taint = set()
        for m in [SA] + [x for x, _ in projgen.apply_history(SA, case["edits"])][-1:]:
            taint |= tool_reachable_recipes(m, os.path.join(base, "probe")) or set()
        SA["no_host_taint"] = sorted(taint)
        if taint:
            ctx.label("host-independent-tool-providers")
        argv = lambda m: ["dev", "r0"] + projgen.defines_argv(m)
        # unrelated artifacts first
        if case.get("noise"):
            SC = projgen.apply_history(SA, case["noise"])[-1][0]
            PC = os.path.join(base, "c", "w"); os.makedirs(PC)
            projgen.render(SC, PC)
            run(PC, argv(SC) + ["--upload", "--download=no"], env_extra=env_for(PC, fpb if case.get("noise_host") else fpa))
            shutil.rmtree(PC, ignore_errors=True)
        os.makedirs(PA)
        projgen.render(SA, PA)
        ra = run(PA, argv(SA) + ["--upload", "--download=no"], env_extra=env_for(PA, fpa))
        if ra.rc != 0:
            ctx.label("uploader-state-rejected")
            return
        hist = projgen.apply_history(SA, case["edits"])
        SB = hist[-1][0] if hist else SA
        changed = any(d != "noop" for _, d in hist)
        # reference: purely local build at the very same path
        os.makedirs(PB)
        projgen.render(SB, PB)
        rl = run(PB, argv(SB) + ["--download=no"], env_extra=env_for(PB, fpb))
        ref = {}
        if rl.rc == 0:
            dm, _ = C1.dist_map(run, PB, SB, "dev")
            for name, d in (dm or {}).items():
                ref[name] = treecanon.canon(os.path.join(PB, d))
        vlib.rmtree(PB)
        os.makedirs(PB)
        projgen.render(SB, PB)
        C1.reset_events(PB)
        mode = case["mode"]
        rb = run(PB, argv(SB) + ["--download=" + mode], env_extra=env_for(PB, fpb))
        built, downloaded = stats(rb.out)
        ev = C1.starts(PB)
        exec_steps = [k for k in ev if C1.kind_of(k) in ("build", "dist")]
        labels = ["mode:" + mode.split("=")[0], "samehost" if case["samehost"] else "otherhost",
                  "edits:%d" % len(case["edits"])] + (["downloaded"] if downloaded else []) + (["built"] if built else [])
        mixed = bool(downloaded) and bool(built)
        full_reuse = (not changed) and case["samehost"] and mode in ("yes", "forced") and rb.rc == 0 and not exec_steps
        ctx.record(jhash(case), mixed or full_reuse, labels + (["mixed-reuse"] if mixed else []) + (["full-reuse"] if full_reuse else []),
                   {"mode": mode, "edits": [d for _, d in hist], "samehost": case["samehost"], "built": built, "downloaded": downloaded})
        if rl.rc != 0:
            ctx.label("downloader-state-rejected")
            return
        what = "mode %s, edits %r, %s host" % (mode, [d for _, d in hist], "same" if case["samehost"] else "other")
        if rb.rc != 0:
            if mode.startswith("forced"):
                ctx.label("forced-download-failed")       # forced modes may fail when the artifact does not exist
                return
            ctx.fail("download-build-fails", "%s: the local build succeeds but the downloading build fails: %s" % (what, rb.err[-500:]), case)
        dm, _ = C1.dist_map(run, PB, SB, "dev")
        for name, cref in sorted(ref.items()):
            if dm is None or name not in dm:
                continue          # dependencies of a downloaded package need not be materialised
            got = treecanon.canon(os.path.join(PB, dm[name]))
            if got != cref:
                first = ""
                try:
                    a = open(os.path.join(PB, dm[name], "result.txt")).read().splitlines()
                    for e in cref:
                        pass
                except OSError:
                    pass
                ctx.fail("foreign-or-stale-artifact", "%s: package %s differs from the purely local build at the same path: %r" %
                         (what, name, treecanon.diff(cref, got, 3)), case)
        if not changed and case["samehost"] and all_relocatable(PB, SB):
            if mode in ("yes", "forced") and exec_steps:
                ctx.fail("rebuilt-although-artifacts-exist", "%s: identical state, yet %r were executed (stats: %s built, %s downloaded)" %
                         (what, exec_steps, built, downloaded), case)
            if mode in ("deps", "forced-deps"):
                others = [k for k in exec_steps if "_r0_" not in k]
                if others:
                    ctx.fail("dependency-rebuilt-although-artifact-exists", "%s: identical state, yet dependencies %r were built" % (what, others), case)
    finally:
        vlib.rmtree(base)

# ------------------------------------------------------------------------------ git layer (live build-ids)
GIT_RULE = ("Git layer (a quarter of the cases): 2-3 workspaces at different paths share one file archive and one upstream "
            "git repository; the recipe follows a branch, a tag or a commit. Generated operation lists: upstream commit, "
            "uncommitted modification of a tracked file in an existing source workspace (and its removal), build in "
            "workspace i with/without --upload and a generated download mode. The build script copies the source file, "
            "so after every successful build the result of every package must equal the content of that workspace's own "
            "source file (if the sources were never checked out because the Build-Id was predicted from the live "
            "build-id: the content a fresh checkout would have had). The requested package r0 is judged after every "
            "build; the dependency lib only when this invocation cooked its package step (Bob's log names its dist "
            "workspace) - when r0 itself is downloaded Bob does not visit lib, and what an earlier build left in "
            "that directory is not a result of this build. Non-trivial there: a build whose checkout was "
            "predicted and whose artifact was downloaded after an uploader had worked with modified sources or the "
            "branch had moved.")

def git_render(ws, url, pin):
    os.makedirs(os.path.join(ws, "recipes"))
    with open(os.path.join(ws, "config.yaml"), "w") as f:
        f.write('bobMinimumVersion: "1.0"\n')
    with open(os.path.join(ws, "default.yaml"), "w") as f:
        f.write("archive:\n  backend: file\n  path: %s\n" % os.path.join(os.path.dirname(url), "archive"))
    spec = {"branch": "branch: master", "tag": "tag: v1", "commit": "commit: %s" % pin[1]}[pin[0]]
    with open(os.path.join(ws, "recipes", "lib.yaml"), "w") as f:
        f.write("checkoutSCM:\n  scm: git\n  url: file://%s\n  %s\n  dir: src\n" % (url, spec))
        f.write('buildScript: |\n  echo "$(<$1/src/f.txt)" > out.txt\n')
        f.write('packageScript: |\n  echo "$(<$1/out.txt)" > result.txt\n')
    with open(os.path.join(ws, "recipes", "r0.yaml"), "w") as f:
        f.write("root: True\ndepends: [lib]\n")
        f.write('buildScript: |\n  echo "top $(<$2/result.txt)" > out.txt\n')
        f.write('packageScript: |\n  echo "$(<$1/out.txt)" > result.txt\n')

def run_git_case(ctx, case, confirm=False):
    from vlib import srcuni
    run = bobproc.script if confirm else bobproc.direct
    base = ctx.tmpdir()
    try:
        home = os.path.join(base, "home"); os.makedirs(home)
        up = os.path.join(base, "up")
        os.makedirs(up)
        clock = [1600000000]
        def g(cwd, *args):
            clock[0] += 100
            return srcuni.git(cwd, list(args), home, clock[0], check=True)
        def upstream(content):
            with open(os.path.join(up, "f.txt"), "w") as f: f.write(content + "\n")
            g(up, "add", "f.txt"); g(up, "commit", "-q", "-m", content)
        g(up, "init", "-q", "-b", "master", ".")
        upstream("upstream-0")
        g(up, "tag", "v1")
        first = g(up, "rev-parse", "HEAD")[1].strip()
        pin = (case["pin"], first)
        head_content = "upstream-0"
        pinned_content = lambda: head_content if pin[0] == "branch" else "upstream-0"
        dirs = [os.path.join(base, "a", "w"), os.path.join(base, "bbbbbbbbbbbb", "deeper", "ws-b"), os.path.join(base, "c", "x", "y", "z")]
        hacked_by_uploader = False; moved = False; ncommit = 0; nhack = 0
        labels = ["git", "pin:" + pin[0]]
        nontrivial = False
        hist = []
        for op in case["ops"]:
            ws = dirs[op.get("ws", 0) % len(dirs)]
            src = os.path.join(ws, "dev", "src", "lib", "1", "workspace", "src", "f.txt")
            if op["op"] == "commit":
                ncommit += 1; head_content = "upstream-%d" % ncommit
                upstream(head_content); moved = True; hist.append("commit")
            elif op["op"] == "hack":
                if os.path.exists(src):
                    nhack += 1
                    with open(src, "w") as f: f.write("local hack %d, never committed\n" % nhack)
                    hist.append("hack:%d" % (op["ws"] % len(dirs)))
            elif op["op"] == "unhack":
                if os.path.exists(src):
                    g(os.path.dirname(src), "checkout", "--", "f.txt"); hist.append("unhack:%d" % (op["ws"] % len(dirs)))
            else:
                if not os.path.exists(ws):
                    git_render(ws, up, pin)
                had_src = os.path.exists(src)
                argv = ["dev", "r0", "--download=" + op["download"]] + (["--upload"] if op["upload"] else [])
                r = run(ws, argv, env_extra={"GIT_CONFIG_GLOBAL": "/dev/null"})
                hist.append("build:%d:%s%s" % (op["ws"] % len(dirs), op["download"], ":upload" if op["upload"] else ""))
                if r.rc != 0:
                    labels.append("git-build-failed")
                    if op["download"] in ("yes", "no", "deps") and not (had_src and _dirty_or_diverged(os.path.dirname(src), home, srcuni)):
                        ctx.fail("git:download-build-fails", "history %r: build fails in a workspace without local changes: %s" % (hist, r.err[-400:]), case)
                    continue
                if op["upload"] and os.path.exists(src) and open(src).read().startswith("local hack"):
                    hacked_by_uploader = True
                expect = open(src).read() if os.path.exists(src) else pinned_content() + "\n"
                built, downloaded = stats(r.out)
                predicted = (not os.path.exists(src)) and not had_src
                if predicted:
                    labels.append("git-checkout-predicted")
                    if hacked_by_uploader or moved:
                        nontrivial = True
                for pkg, pre in (("lib", ""), ("r0", "top ")):
                    res = os.path.join(ws, "dev", "dist", pkg, "1", "workspace", "result.txt")
                    if not os.path.exists(res):
                        continue        # dependencies of a downloaded package need not be materialised
                    if pkg != "r0" and not _visited(r.out, pkg):
                        # ... nor refreshed: Bob does not cook the dependencies of a package it downloads
                        # (_cookStep), so what an earlier invocation left there is not a result of this build.
                        # The requested package r0 is always judged and embeds what it consumed from lib.
                        labels.append("git-unvisited-dependency-not-judged")
                        continue
                    got = open(res).read()
                    if got != pre + expect:
                        ctx.fail("git:foreign-or-stale-artifact", "history %r: package %s holds %r but the sources of this workspace "
                                 "(or, without checkout, the configured upstream state) are %r" % (hist, pkg, got, pre + expect), case)
        ctx.record(jhash(case), nontrivial, labels, {"git-history": hist, "pin": pin[0]})
    finally:
        vlib.rmtree(base)

def _visited(out, pkg):
    """did this invocation cook the package step of pkg?  Every outcome of a cooked package step is reported with its
    dist workspace at the default verbosity: PACKAGE <dir>, PACKAGE skipped (unchanged input for|already downloaded
    in <dir>), DOWNLOAD <dir>, PRUNE <dir> (pym/bob/builder.py _downloadPackage/_cookPackageStep)"""
    return ("dev/dist/%s/1/workspace" % pkg) in out

def _dirty_or_diverged(srcdir, home, srcuni):
    rc, out, _ = srcuni.git(srcdir, ["status", "--porcelain"], home)
    return rc != 0 or bool(out.strip())

WS = st.integers(0, 2)
git_op_st = st.one_of(
    st.fixed_dictionaries({"op": st.just("build"), "ws": WS, "upload": st.booleans(),
                           "download": st.sampled_from(["yes", "yes", "no", "deps", "forced-fallback"])}),
    st.fixed_dictionaries({"op": st.just("build"), "ws": st.just(0), "upload": st.just(True), "download": st.sampled_from(["no", "yes"])}),
    st.fixed_dictionaries({"op": st.just("hack"), "ws": st.sampled_from([0, 0, 1, 2])}),
    st.fixed_dictionaries({"op": st.just("unhack"), "ws": st.sampled_from([0, 0, 1, 2])}),
    st.fixed_dictionaries({"op": st.just("commit")}))
_first = st.just({"op": "build", "ws": 0, "upload": True, "download": "no"})
_last = st.fixed_dictionaries({"op": st.just("build"), "ws": st.sampled_from([1, 2, 2]), "upload": st.just(False),
                               "download": st.sampled_from(["yes", "yes", "deps", "forced-fallback"])})
# an uploader first, a (mostly fresh) downloading workspace last: the shape in which checkouts are predicted
git_case_st = st.fixed_dictionaries({"kind": st.just("git"), "pin": st.sampled_from(["branch", "branch", "tag", "commit"]),
                                     "ops": st.builds(lambda a, m, z: [a] + m + [z], _first, st.lists(git_op_st, min_size=1, max_size=6), _last)})

RULE = RULE + GIT_RULE
I = st.integers(0, 30)
def case_st(quick):
    return st.one_of(_case_st(quick), _case_st(quick), _case_st(quick), git_case_st)

def _case_st(quick):
    return st.fixed_dictionaries({
        "model": projgen.model_st(2, 5 if quick else 6, richness=1),
        "edits": st.one_of(st.just([]), st.lists(projgen.edit_st, min_size=1, max_size=3)),
        "mode": st.sampled_from(MODES),
        "samehost": st.sampled_from([True, True, False]),
        "fp": st.lists(I, max_size=2),
        "nonreloc": st.lists(I, max_size=2),
        "noise": st.one_of(st.none(), st.lists(projgen.edit_st, min_size=1, max_size=2)),
        "noise_host": st.booleans(),
        "both": st.booleans(),
    })

def check(ctx, case):
    rc = run_git_case if case.get("kind") == "git" else run_case
    try:
        rc(ctx, case)
    except Violation as v:
        try:
            rc(ctx, case, confirm=True)
        except Violation as w:
            raise w
        ctx.label("unconfirmed-in-fresh-process:" + v.signature)

def shard(ctx):
    bobproc.warm()
    run_hypothesis(ctx, case_st(ctx.quick()), lambda c: check(ctx, c), ctx.n(640, 6000), shrink=False, minimize=("edits", "noise"))

def replay(ctx, case):
    (run_git_case if case.get("kind") == "git" else run_case)(ctx, case, confirm=True)

FINDINGS = {}
