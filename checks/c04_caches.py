"""C04 - Package graph caches are transparent."""
import os, json, shutil
from hypothesis import strategies as st

import vlib
from vlib import projgen, pkgdump
from vlib.runner import run_hypothesis, Violation, jhash

PROP = "C04"
LEVEL = "exploration"
RULE = ("Generated projects rich in shared sub-recipes reached under environments/tools that differ in single keys "
        "(values read through ${V:-d}, ${V+a}, $(eq..), $(is-tool-defined..), dependency conditions incl. !expr, "
        "provideVars, tool use) and histories of 2-5 edits (recipe, class, include file, default.yaml, -D). After every "
        "edit: WARM = new RecipeSet in the long-lived directory (stat-keyed YAML cache .bob-cache.sqlite3, package "
        "pickle, .bob-tree.sqlite3 from earlier states; in-memory package re-use active; sandbox mode alternates); "
        "COLD = the same files in an empty directory with PackageMatcher.matches forced to False (no re-use at all). "
        "Oracle: the full graph dump (per package stack: name, recipe, three Variant-Ids, validity, scripts, "
        "environments, tools, sandbox, argument ids, meta environment, flags) and three path queries are identical; "
        "Bob's own --debug=pkgck assertion must not fire. Non-trivial: warm run re-used >=1 package (PackageMatcher.touch "
        "counted) and some recipe is instantiated >=2 times with different results; distinct = hash of (model, history).")
ASSUMPTIONS = ["every edit changes the stat data of the edited file (logical clock)"]
TIME_BUDGET = {"quick": 240, "thorough": 1500}
BATCH = 8

QUERIES = ["//*", "r0/*", "//*[\"${V0}\" == \"x\" || \"${V1}\" != \"\"]"]

def dump(project, model, sandbox, count=None):
    """-> (graph dump, query answers) | ("rejected", message)"""
    from bob.errors import BobError
    import bob.input
    with pkgdump.in_dir(project):
        orig_touch = bob.input.PackageMatcher.touch
        if count is not None:
            def touch(self, *a, **kw):
                count[0] += 1
                return orig_touch(self, *a, **kw)
            bob.input.PackageMatcher.touch = touch
        try:
            rs, ps = pkgdump.load(project, model.get("defines"), sandbox=sandbox, formatter=pkgdump._fmt)
            g = pkgdump.graph_dump(ps, with_paths=True)
            qs = []
            for q in QUERIES:
                try:
                    qs.append(sorted("/".join(p.getStack()) for p in ps.queryPackagePath(q)))
                except BobError as e:
                    qs.append("error")
            ps.close()
            return g, qs
        except BobError as e:
            return "rejected", str(e)[:200]
        except (KeyError, IndexError, AttributeError, TypeError, ValueError, AssertionError) as e:
            if isinstance(e, AssertionError) and bob.DEBUG.get('pkgck'):
                raise
            # an internal error of Bob (not a harness problem: the harness only calls the public API here)
            import traceback
            tb = traceback.extract_tb(e.__traceback__)
            inner = next((f for f in reversed(tb) if "/pym/bob/" in f.filename), tb[-1])
            return "crashed", "%s: %s at %s:%d" % (type(e).__name__, str(e)[:100], os.path.basename(inner.filename), inner.lineno)
        finally:
            bob.input.PackageMatcher.touch = orig_touch

def cold_dump(project, model, sandbox):
    import bob.input
    orig = bob.input.PackageMatcher.matches
    bob.input.PackageMatcher.matches = lambda self, *a, **kw: False
    try:
        return dump(project, model, sandbox)
    finally:
        bob.input.PackageMatcher.matches = orig

def first_diff(a, b):
    for k in sorted(set(a) | set(b)):
        if a.get(k) != b.get(k):
            if k not in a: return "%s only in cold" % k
            if k not in b: return "%s only in warm" % k
            for f in a[k]:
                if a[k][f] != b[k].get(f):
                    if isinstance(a[k][f], dict) and isinstance(b[k].get(f), dict):
                        for g in a[k][f]:
                            if a[k][f][g] != b[k][f].get(g):
                                return "%s: %s.%s warm %r / cold %r" % (k, f, g, a[k][f][g] if not isinstance(a[k][f][g], str) else a[k][f][g][:120],
                                                                        b[k][f].get(g) if not isinstance(b[k][f].get(g), str) else b[k][f].get(g)[:120])
                    return "%s: %s warm %r / cold %r" % (k, f, a[k][f], b[k].get(f))
    return "?"

def run_case(ctx, case):
    import bob
    model, edits = case["model"], case["edits"]
    if case.get("toolchains") is not None:
        model = projgen.add_toolchains(model, case["toolchains"])
    if case.get("sbprovider"):
        from checks.c03_idpurity import with_sandbox_provider
        model = with_sandbox_provider(model, case["sbprovider"])
    base = ctx.tmpdir()
    W = os.path.join(base, "warm")
    os.makedirs(W)
    try:
        states = [(model, "initial")] + projgen.apply_history(model, edits)
        reused = 0
        multi = False
        labels = set()
        for n, (m, desc) in enumerate(states):
            sb = bool((case["sandbox"] >> n) & 1)
            projgen.render(m, W)
            cnt = [0]
            warm = dump(W, m, sb, cnt)
            reused += cnt[0]
            C = os.path.join(base, "cold%d" % n)
            os.makedirs(C)
            projgen.render(m, C)
            cold = cold_dump(C, m, sb)
            where = "state %d (%s), sandbox=%s" % (n, desc, sb)
            if "crashed" in (warm[0], cold[0]):
                ctx.fail("internal-error", "%s: warm %r / cold %r" % (where, warm[:2] if warm[0] == "crashed" else "ok",
                         cold[:2] if cold[0] == "crashed" else "ok"), case)
                shutil.rmtree(C, ignore_errors=True)
                continue            # (an already reported signature does not raise again)
            if (warm[0] == "rejected") != (cold[0] == "rejected"):
                ctx.fail("rejected-only-with-or-without-caches", "%s: warm %r / cold %r" % (where, warm[:2] if warm[0] == "rejected" else "ok",
                         cold[:2] if cold[0] == "rejected" else "ok"), case)
            if warm[0] == "rejected":
                labels.add("state-rejected")
                shutil.rmtree(C, ignore_errors=True)
                continue
            if warm[0] != cold[0]:
                ctx.fail("graph-differs", "%s: %s" % (where, first_diff(warm[0], cold[0])), case)
            if warm[1] != cold[1]:
                ctx.fail("query-differs", "%s: path queries answer %r with caches, %r without" % (where, warm[1], cold[1]), case)
            # Bob's own assertion about package re-use
            bob.DEBUG['pkgck'] = True
            try:
                chk = dump(W, m, sb)
            except AssertionError as e:
                ctx.fail("pkgck-assertion", "%s: --debug=pkgck: %s" % (where, e), case)
            finally:
                bob.DEBUG['pkgck'] = False
            if chk[0] == "crashed":
                ctx.fail("internal-error", "%s: second warm run %r" % (where, chk[:2]), case)
            elif chk[0] != "rejected" and chk[0] != warm[0]:
                ctx.fail("graph-differs-second-warm-run", "%s: a second warm run differs: %s" % (where, first_diff(chk[0], warm[0])), case)
            by_recipe = {}
            for k, v in warm[0].items():
                by_recipe.setdefault(v["recipe"], set()).add(json.dumps([v["checkout"].get("vid"), v["build"].get("vid"), v["package"].get("vid")]))
            multi = multi or any(len(s) > 1 for s in by_recipe.values())
            shutil.rmtree(C, ignore_errors=True)
        ctx.record(jhash(case), reused > 0 and multi, sorted(labels) + ["edits:%d" % len(edits)] + (["reused"] if reused else []) +
                   (["multi-variant-recipe"] if multi else []),
                   {"recipes": len(model["recipes"]), "edits": [d for _, d in states[1:]], "reuse_hits": reused})
    finally:
        vlib.rmtree(base)

def case_st(quick):
    return st.fixed_dictionaries({"model": projgen.model_st(4, 6 if quick else 7, richness=1, dense=True),
                                  "edits": st.lists(projgen.edit_st, min_size=2, max_size=4 if quick else 6),
                                  "sandbox": st.integers(0, 255), "sbprovider": st.sampled_from([False, True, 1, 2, 3]),
                                  "toolchains": st.sampled_from([None, 0, 1, 2, 3, 4, 5])})

def shard(ctx):
    run_hypothesis(ctx, case_st(ctx.quick()), lambda c: run_case(ctx, c), ctx.n(1280, 12000), shrink=False, minimize=("edits",))

def replay(ctx, case):
    run_case(ctx, case)

FINDINGS = {}
