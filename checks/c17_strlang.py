"""C17 - String substitution and conditions follow the documented language."""
import sys, traceback, types
from hypothesis import strategies as st

from vlib import strlang as L
from vlib.runner import run_hypothesis, Violation, jhash

PROP = "C17"
LEVEL = "exploration"
RULE = ("Expression trees generated from the documented grammar (variable forms with default/alternate, "
        "nested quoting, escapes, string functions) are rendered with generated protection choices and "
        "evaluated by Env.substitute; oracle = reference evaluator written from the manual (value or "
        "ParseError). Boolean trees are rendered as infix !expr and as nested $(fn,..) and compared with "
        "the reference truth value. Raw unicode strings / ill-typed and deeply nested infix expressions "
        "must give a value or ParseError, never an internal exception. Protected text must round-trip. "
        "Non-trivial: tree depth>=3 with >=2 different constructs (quote/default/alternate/function), or a "
        "raw string with a special character that Bob accepts, or a boolean tree with >=2 operators; "
        "distinct = hash of (tree, environment).")
ASSUMPTIONS = [
    "regular expressions of match/resubst are delegated to Python's re in the reference as well",
    "booleans with surrounding whitespace, subst with empty 'from', raw newline/tab inside infix "
    "literals are not defined by the manual and are skipped (counted as unspecified)",
]
TIME_BUDGET = {"quick": 150, "thorough": 900}

_bob = None
def bob():
    global _bob
    if _bob is None:
        from bob import stringparser as sp
        from bob.errors import ParseError, BobError
        _bob = types.SimpleNamespace(sp=sp, ParseError=ParseError, BobError=BobError)
    return _bob

def mkenv(envd, sandbox):
    b = bob()
    e = b.sp.Env(envd)
    funs = dict(b.sp.DEFAULT_STRING_FUNS)
    funs.update(b.sp.EXTRA_STRING_FUNS)
    e.setFuns(funs)
    tools = b.sp.Env({n: types.SimpleNamespace(environment=dict(v)) for n, v in L.TOOLS.items()})
    e.setFunArgs({"recipe": None, "sandbox": sandbox, "__tools": tools, "states": {}})
    return e

def innermost_bob_frame(tb):
    name = "?"
    for fs in traceback.extract_tb(tb):
        if "/bob/" in fs.filename:
            name = "%s:%s" % (fs.filename.rsplit("/", 1)[-1], fs.name)
    return name

def guarded(fn):
    """-> ("ok", value) | ("err", msg) | ("exc", signature, detail)"""
    b = bob()
    try:
        return ("ok", fn())
    except b.ParseError as e:
        return ("err", str(e))
    except RecursionError as e:
        return ("exc", "exc:RecursionError", "RecursionError")
    except Exception as e:
        return ("exc", "exc:%s:%s" % (type(e).__name__, innermost_bob_frame(e.__traceback__)),
                "%s: %s" % (type(e).__name__, e))

# ---------------------------------------------------------------------------------------
def check_tree(ctx, case):
    tree, envd, sandbox = case["tree"], case["env"], case["sandbox"]
    fctx = {"sandbox": sandbox, "tools": L.TOOLS}
    src = L.render(tree)
    try:
        exp = ("ok", L.ev(tree, envd, fctx, True))
    except L.RefError as e:
        exp = ("err", str(e))
    except L.Unspecified:
        ctx.label("tree:unspecified")
        return
    got = guarded(lambda: mkenv(envd, sandbox).substitute(src, "p"))
    case = dict(case, layer="tree", src=src)
    ks = L.kinds(tree)
    nontriv = L.depth(tree) >= 3 and len(ks & {"dq", "def", "alt", "fun", "var"}) >= 2
    ctx.record(jhash([tree, envd, sandbox]), nontriv,
               ["tree:" + exp[0]] + (["tree:lazy"] if exp[0] == "ok" and ({"def", "alt"} & ks) else []),
               {"src": src, "env": envd, "expected": exp})
    if got[0] == "exc":
        ctx.fail(got[1], "substitute(%r) env=%r: %s" % (src, envd, got[2]), case)
    elif got[0] != exp[0]:
        ctx.fail("tree:" + ("accepts-error" if exp[0] == "err" else "rejects-valid"),
                 "substitute(%r) env=%r: expected %r got %r" % (src, envd, exp, got), case)
    elif got[0] == "ok" and got[1] != exp[1]:
        ctx.fail("tree:wrong-value", "substitute(%r) env=%r: expected %r got %r" % (src, envd, exp[1], got[1]), case)

def check_protect(ctx, case):
    s = case["text"]
    forms = {
        "backslash": "".join("\\" + c for c in s),
        "dquote": '"' + "".join("\\" + c if c in L.BASE_SPECIAL else c for c in s) + '"',
        "squote": "\\'".join("'" + part + "'" for part in s.split("'")),
    }
    ctx.record(jhash(["prot", s]), any(c in s for c in "\\\"'${}(),") or any(ord(c) > 127 for c in s),
               ["protect"], {"text": s, "forms": forms})
    for k, src in forms.items():
        for wrap in ("%s", "$(if-then-else,1,%s,x)", "${U0:-%s}", "${U0-\"%s\"}"):
            if k == "dquote" and wrap.endswith('"%s"}'):
                continue
            got = guarded(lambda: mkenv({}, False).substitute(wrap % src, "p"))
            if got[0] == "exc":
                ctx.fail(got[1], "protected %r via %s in %r: %s" % (s, k, wrap, got[2]), dict(case, layer="protect"))
            elif got != ("ok", s):
                ctx.fail("protect:" + k, "protected %r via %s in %r came back as %r" % (s, k, wrap, got),
                         dict(case, layer="protect"))

def _nops(n):
    k = n[0]
    if k in ("s",): return 0
    if k == "call": return 1 + sum(_nops(a) for a in n[2])
    if k == "cmp": return 1 + _nops(n[2]) + _nops(n[3])
    if k == "not": return 1 + _nops(n[1])
    return 1 + _nops(n[1]) + _nops(n[2])

def check_cond(ctx, case):
    b = bob()
    tree, envd, sandbox, extra = case["btree"], case["env"], case["sandbox"], case["parens"]
    fctx = {"sandbox": sandbox, "tools": L.TOOLS}
    src = L.infix(tree, extra)
    case = dict(case, layer="cond", src=src)
    if src.count("(((((") > 0:
        # >= 5 directly nested parentheses: value oracle is kept apart from stack depth
        extra = [min(e, 2) for e in extra]
        src = L.infix(tree, extra)
        case = dict(case, parens=extra, src=src)
    def ref(nounset):
        try:
            return ("ok", L.bev(tree, envd, fctx, nounset))
        except L.RefError as e:
            return ("err", str(e))
        except L.Unspecified:
            return None
    exp = ref(False)
    if exp is None:
        ctx.label("cond:unspecified")
        return
    got = guarded(lambda: mkenv(envd, sandbox).evaluate(b.sp.IfExpression(src), "p"))
    ctx.record(jhash(["cond", tree, envd, sandbox, extra]), _nops(tree) >= 2,
               ["cond:" + exp[0]], {"infix": src, "env": envd, "expected": exp})
    if got[0] == "exc":
        ctx.fail(got[1], "IfExpression(%r) env=%r: %s" % (src, envd, got[2]), case)
    elif got != exp and not (got[0] == "err" and exp[0] == "err"):
        ctx.fail("cond:infix-value", "IfExpression(%r) env=%r: expected %r got %r" % (src, envd, exp, got), case)
    # function-call spelling (unset variables are errors there: documented difference)
    ff = L.funform(tree)
    if ff is None:
        return
    exp2 = ref(True)
    if exp2 is None:
        return
    got2 = guarded(lambda: mkenv(envd, sandbox).evaluate(ff, "p"))
    ctx.label("cond:funform")
    if got2[0] == "exc":
        ctx.fail(got2[1], "evaluate(%r) env=%r: %s" % (ff, envd, got2[2]), dict(case, funform=ff))
    elif got2 != exp2 and not (got2[0] == "err" and exp2[0] == "err"):
        ctx.fail("cond:funform-value", "evaluate(%r) env=%r: expected %r got %r (infix %r)" %
                 (ff, envd, exp2, got2, src), dict(case, funform=ff))

def check_raw(ctx, case):
    b = bob()
    s, envd = case["raw"], case["env"]
    case = dict(case, layer="raw")
    r1 = guarded(lambda: mkenv(envd, False).substitute(s, "p"))
    r2 = guarded(lambda: mkenv(envd, True).evaluate(b.sp.IfExpression(s), "p"))
    r3 = guarded(lambda: mkenv(envd, False).substitute(s, "p", False))
    special = any(c in s for c in "\\\"'$")
    ctx.record(jhash(["raw", s, envd]), special and (r1[0] == "ok" or r2[0] == "ok"),
               ["raw:subst-" + r1[0], "raw:ifexpr-" + r2[0]], {"raw": s, "substitute": r1, "ifexpr": r2})
    for which, r in (("substitute", r1), ("IfExpression", r2), ("substitute-nounset-off", r3)):
        if r[0] == "exc":
            ctx.fail(r[1], "%s(%r) env=%r: %s" % (which, s, envd, r[2]), dict(case, which=which))

# ---------------------------------------------------------------------------------------
# strategies for the raw layer: unicode text, plus token soups of both languages
TOK = ["$", "{", "}", "(", ")", ",", ":", "-", "+", '"', "'", "\\", " ", "V0", "U0", "eq", "not", "x",
       "==", "!=", "<", "<=", ">", ">=", "&&", "||", "!", "if-then-else", "match", "strip", "a", "0",
       "false", "is-sandbox-enabled", "get-tool-env", "t0", "A", "\n", "é"]
soup = st.lists(st.sampled_from(TOK), max_size=24).map("".join)
def _nest(draw):
    d = draw(st.integers(0, 12))
    inner = draw(st.sampled_from(['"a"', '"a" == "b"', 'eq("a","b")', '!"x"', '"$V0"', "'q'"]))
    return "(" * d + inner + ")" * d
nested = st.composite(lambda draw: _nest(draw))()
illtyped = st.builds(lambda a, o1, b, o2, c: '%s %s %s %s %s' % (a, o1, b, o2, c),
                     st.sampled_from(['"a"', '!"a"', 'eq("a","a")', '("a" < "b")', '"$V0"']),
                     st.sampled_from(L.CMP + ["&&", "||"]),
                     st.sampled_from(['"b"', '!"b"', '("b" == "b")', 'not("0")']),
                     st.sampled_from(L.CMP + ["&&", "||"]),
                     st.sampled_from(['"c"', '!"c"', '("c")']))
raw_st = st.one_of(st.text(max_size=200), soup, soup, nested, illtyped,
                   L.tree_st.map(L.render),
                   st.tuples(L.tree_st.map(L.render), st.integers(0, 60), st.sampled_from(TOK))
                     .map(lambda t: t[0][:t[1]] + t[2] + t[0][t[1]:]))

tree_case = st.fixed_dictionaries({"tree": L.tree_st, "env": L.env_st, "sandbox": st.booleans()})
prot_case = st.fixed_dictionaries({"text": st.one_of(st.text(max_size=30), st.text(alphabet=L.ALPHABET, max_size=12))})
cond_case = st.fixed_dictionaries({"btree": L.bool_st, "env": L.env_st, "sandbox": st.booleans(),
                                   "parens": st.lists(st.integers(0, 2), max_size=8)})
raw_case = st.fixed_dictionaries({"raw": raw_st, "env": L.env_st})

def check_nest(ctx, case):
    """deep nesting at the interpreter's default recursion limit (outside Hypothesis, which
    raises the limit while it runs a test): value or ParseError, never an internal exception"""
    b = bob()
    src = case["src"]
    if case["kind"] == "ifexpr":
        r = guarded(lambda: mkenv({"V0": "v"}, False).evaluate(b.sp.IfExpression(src), "p"))
    else:
        r = guarded(lambda: mkenv({"V0": "v"}, False).substitute(src, "p"))
    ctx.record(jhash(["nest", src]), case["depth"] >= 3, ["nest:" + r[0]], None)
    if r[0] == "exc":
        ctx.fail(r[1], "%s %r: %s" % (case["kind"], src[:120], r[2]), dict(case, layer="nest"))
    elif case["depth"] <= 4 and r[0] != "ok":
        ctx.fail("nest:rejected-shallow", "%s %r rejected: %r" % (case["kind"], src, r), dict(case, layer="nest"))

def nest_cases():
    for d in range(0, 31):
        for inner in ['"a"', '"a" == "b"', 'eq("a","b")', '!"x"', '"$V0"', "'q'", '"a" && "b" || "c"']:
            yield {"kind": "ifexpr", "depth": d, "src": "(" * d + inner + ")" * d}
            yield {"kind": "ifexpr", "depth": d, "src": "!(" * d + inner + ")" * d}
        if d <= 24:
            yield {"kind": "subst", "depth": d, "src": "${U0:-" * d + "x" + "}" * d}
            yield {"kind": "subst", "depth": d, "src": "$(strip," * d + "x" + ")" * d}
            yield {"kind": "subst", "depth": d, "src": '"${V0:+' * d + "x" + '}"' * d}
        if d <= 12:
            yield {"kind": "ifexpr", "depth": d, "src": "strip(" * d + '"x"' + ")" * d}

LAYERS = {"tree": check_tree, "protect": check_protect, "cond": check_cond, "raw": check_raw,
          "nest": check_nest}

def shard(ctx):
    sys.setrecursionlimit(1000)      # the interpreter default, independent of the runner
    for i, c in enumerate(nest_cases()):
        if i % ctx.nshards == ctx.shard:
            try:
                check_nest(ctx, c)
            except Violation as v:
                ctx.add_violation(v)
    run_hypothesis(ctx, tree_case, lambda c: check_tree(ctx, c), ctx.n(48000, 600000), salt="tree")
    run_hypothesis(ctx, cond_case, lambda c: check_cond(ctx, c), ctx.n(16000, 200000), salt="cond")
    run_hypothesis(ctx, raw_case, lambda c: check_raw(ctx, c), ctx.n(32000, 400000), salt="raw")
    run_hypothesis(ctx, prot_case, lambda c: check_protect(ctx, c), ctx.n(8000, 100000), salt="prot")

def replay(ctx, case):
    sys.setrecursionlimit(1000)
    LAYERS[case["layer"]](ctx, case)

# ---------------------------------------------------------------------------------------
# known findings: none open (see known_findings.json "fixed" records)
FINDINGS = {}
