"""C05 - Failed or killed builds never poison the workspace."""
import os, shutil
from hypothesis import strategies as st

import vlib
from vlib import bobproc, projgen, treecanon, scripts
from vlib.runner import run_hypothesis, Violation, jhash
from checks import c01_incremental as C1

PROP = "C05"
LEVEL = "fault_enumeration"
RULE = ("Generated project + 0-2 edits, built once; then the next invocation (after a further edit, or forced) is "
        "aborted by a generated fault plan of 1-2 faults: a step script fails after writing junk, a step script kills "
        "Bob (kill -9 of the parent) after writing junk, or Bob itself dies (os._exit) immediately before/after its "
        "k-th kill point. Kill points: every _BobState save (all result/input/directory/variant-id updates), every "
        "emptyDirectory/removePath/hashWorkspace call of the builder, every Audit.save, entry and exit of every script "
        "execution - counted in a dry run of the same invocation (k generated; before and after each point are separate points)"
        ". The stale lock is removed, the build is repeated without faults and compared with a clean build of "
        "the final state at another path: it must exit 0 and every package result must have the identical canonical "
        "tree (junk written by aborted scripts makes 'wrongly considered up to date' visible). Non-trivial: the "
        "abort happened after >=1 step of the invocation had finished and before the last one started; distinct = "
        "hash of (model, edits, fault plan). In addition 0-3 (thorough: 2-6) further kill points of the same invocation are "
        "tried one by one from a snapshot of the workspace taken before the aborted invocation.")
ASSUMPTIONS = ["kill points are enumerated with -j1 (deterministic order)",
               "Bob's own death is emulated in-process (a BaseException at the kill point; every later instrumented "
               "mutation raises it again) because forking is very slow here; a script killing Bob (kill -9) uses a real "
               "forked child; every suspected violation is re-run with real processes and a real os._exit before it is reported"]
TIME_BUDGET = {"quick": 240, "thorough": 1700}
BATCH = 8

class Killed(BaseException):
    """emulated death of the Bob process (in-process runs): not an Exception, so Bob's error handling does not
    swallow it; once raised every further kill point raises it again, i.e. no instrumented mutation of state
    or workspaces happens after the 'death' (cleanup handlers cannot touch anything that matters)"""

def make_patch(logpath, kill_at=None, emulate=False):
    """-> (install, uninstall).  install() puts kill-point hooks into the bob modules of the current process.
    kill_at=k: die at the k-th kill point - os._exit(137) in a forked child, or Killed when emulate=True."""
    saved = []
    def install():
        import bob.state, bob.builder, bob.audit
        counter = [0]
        dead = [False]
        def point(site, phase):
            if dead[0]:
                raise Killed()
            counter[0] += 1
            with open(logpath, "a") as f:
                f.write("%d %s %s\n" % (counter[0], site, phase))
            if kill_at is not None and counter[0] == kill_at:
                if emulate:
                    dead[0] = True
                    raise Killed()
                os._exit(137)
        def wrap(fn, site):
            def w(*a, **kw):
                point(site, "before")
                r = fn(*a, **kw)
                point(site, "after")
                return r
            return w
        def patch(obj, name, new):
            saved.append((obj, name, getattr(obj, name)))
            setattr(obj, name, new)
        S = bob.state._BobState
        patch(S, "_BobState__save", wrap(S._BobState__save, "state.save"))
        for name in ("emptyDirectory", "removePath", "hashWorkspace"):
            if hasattr(bob.builder, name):
                patch(bob.builder, name, wrap(getattr(bob.builder, name), name))
        patch(bob.audit.Audit, "save", wrap(bob.audit.Audit.save, "audit.save"))
        orig_run = bob.builder.LocalBuilder._runShell
        async def run_shell(self, *a, **kw):
            point("runShell", "before")
            r = await orig_run(self, *a, **kw)
            point("runShell", "after")
            return r
        patch(bob.builder.LocalBuilder, "_runShell", run_shell)
    def uninstall():
        while saved:
            obj, name, old = saved.pop()
            setattr(obj, name, old)
    return install, uninstall

def run_patched(real, project, argv, env, logpath, kill_at=None):
    """run one (possibly dying) invocation: real=True -> forked child with a real os._exit;
    real=False -> inside the harness process with the emulated death"""
    if real:
        install, _ = make_patch(logpath, kill_at)
        return bobproc.inproc(project, argv, env_extra=env, patch=install)
    install, uninstall = make_patch(logpath, kill_at, emulate=True)
    install()
    try:
        return bobproc.direct(project, argv, env_extra=env)
    finally:
        uninstall()
        import bob.state
        bob.state._BobState.instance = None      # the 'dead' process leaves no live state object behind

def count_points(path):
    try:
        with open(path) as f:
            return [l.split() for l in f.read().splitlines()]
    except FileNotFoundError:
        return []

def run_case(ctx, case, confirm=False):
    run = bobproc.script if confirm else bobproc.direct
    model, edits, mode = case["model"], case["edits"], case["mode"]
    base = ctx.tmpdir()
    W = os.path.join(base, "w")
    X = os.path.join(base, "elsewhere", "x")
    os.makedirs(W); os.makedirs(X)
    sw = os.path.join(W, "switches")
    os.makedirs(os.path.join(sw, "fail")); os.makedirs(os.path.join(sw, "kill"))
    try:
        states = [(model, "initial")] + projgen.apply_history(model, edits)
        argv = lambda m: C1.build_argv(m, mode, None) + (["--force"] if case.get("force") else [])
        # history up to the state before the interrupted invocation
        for m, desc in states[:-1]:
            projgen.render(m, W)
            run(W, C1.build_argv(m, mode, None), env_extra=C1.env_for(W))
        final = states[-1][0]
        projgen.render(final, W)
        # dry run of the interrupted invocation on a copy: learn the kill points and the steps it executes
        dry = os.path.join(base, "dry")
        shutil.copytree(W, dry, symlinks=True)
        plog = os.path.join(base, "points.log")
        C1.reset_events(dry)
        r = run_patched(confirm, dry, argv(final), C1.env_for(dry), plog)
        points = count_points(plog)
        dry_starts = C1.starts(dry)
        shutil.rmtree(dry, ignore_errors=True)
        if r.rc != 0:
            ctx.label("final-state-rejected")
            return
        K = len(points)
        partial = False
        plan_desc = []
        snap = None
        if case.get("extra") and K:
            snap = os.path.join(base, "snap")
            shutil.copytree(W, snap, symlinks=True)
        for fi, fault in enumerate(case["faults"]):
            kind = fault[0]
            C1.reset_events(W)
            for d in ("fail", "kill"):
                for f in os.listdir(os.path.join(sw, d)):
                    os.unlink(os.path.join(sw, d, f))
            if kind in ("fail", "killstep"):
                if not dry_starts:
                    continue
                key = dry_starts[fault[1] % len(dry_starts)]
                open(os.path.join(sw, "fail" if kind == "fail" else "kill", key), "w").close()
                plan_desc.append("%s %s" % (kind, key))
                if kind == "fail":
                    rr = run(W, argv(final), env_extra=C1.env_for(W))
                else:
                    rr = bobproc.inproc(W, argv(final), env_extra=C1.env_for(W))
            else:
                if K == 0:
                    continue
                k = 1 + fault[1] % K
                if len(fault) > 2 and fault[2] % 2:
                    # half of the plans aim at the neighbourhood of a workspace mutation (the state save just before /
                    # after a directory is emptied, removed or hashed, or a script runs): that is where order matters
                    hot = sorted({j + d for j, p in enumerate(points) if p[1] in ("emptyDirectory", "removePath", "hashWorkspace", "runShell")
                                  for d in (-1, 0, 1) if 0 <= j + d < K})
                    if hot:
                        k = 1 + hot[fault[1] % len(hot)]
                plog2 = os.path.join(base, "points%d.log" % fi)
                plan_desc.append("exit at kill point %d/%d (%s %s)" % (k, K, points[k-1][1], points[k-1][2]))
                rr = run_patched(confirm, W, argv(final), C1.env_for(W), plog2, kill_at=k)
            ev = scripts.parse_events(os.path.join(W, "events.log"))
            ends = [e for e in ev if e[0] == "end" and e[2] == "0"]
            st_ = [e for e in ev if e[0] == "start"]
            if ends and len(st_) < max(1, len(dry_starts)) + 0 and (len(ends) < len(dry_starts)):
                partial = True
            bobproc.remove_stale_lock(W)
        for d in ("fail", "kill"):
            for f in os.listdir(os.path.join(sw, d)):
                os.unlink(os.path.join(sw, d, f))
        # final run without faults, and the clean reference
        r_final = run(W, C1.build_argv(final, mode, None), env_extra=C1.env_for(W))
        projgen.render(final, X)
        r_clean = run(X, C1.build_argv(final, mode, None), env_extra=C1.env_for(X))
        labels = ["mode:" + mode] + ["fault:" + f[0] for f in case["faults"]] + (["forced"] if case.get("force") else [])
        if r_clean.rc != 0:
            ctx.label("final-state-rejected")
            return
        ctx.record(jhash(case), partial, labels, {"edits": [d for _, d in states[1:]], "faults": plan_desc, "kill_points": K,
                                                  "steps_in_invocation": len(dry_starts)})
        ctx.extra["kill_points_seen"] = ctx.extra.get("kill_points_seen", 0) + K
        if r_final.rc != 0:
            ctx.fail("build-after-abort-fails", "after %r the next invocation fails: %s" % (plan_desc, r_final.err[-600:]), case)
        dw, rq = C1.dist_map(run, W, final, mode)
        dx, rq2 = C1.dist_map(run, X, final, mode)
        if dw is None or dx is None:
            ctx.fail("query-failed", "query-path failed after abort: %s" % (rq.err[-300:] if dw is None else rq2.err[-300:]), case)
        for name, dpath in sorted(dx.items()):
            if name not in dw:
                ctx.fail("result-missing-after-abort", "after %r package %s has no result" % (plan_desc, name), case)
            cw, cx = treecanon.canon(os.path.join(W, dw[name])), treecanon.canon(os.path.join(X, dpath))
            if cw != cx:
                first = ""
                try:
                    a = open(os.path.join(W, dw[name], "result.txt")).read().splitlines()
                    b = open(os.path.join(X, dpath, "result.txt")).read().splitlines()
                    for i, (la, lb) in enumerate(zip(a + [""] * len(b), b + [""] * len(a))):
                        if la != lb:
                            first = "first differing line %d: after abort %r / clean %r" % (i, la, lb); break
                except OSError:
                    pass
                ctx.fail("result-differs-after-abort", "after %r package %s differs from the clean build: %r %s" %
                         (plan_desc, name, treecanon.diff(cw, cx, 3), first), case)
        # further kill points of the same invocation, each tried on its own from a snapshot of the workspace (the clean
        # reference is shared): more of the kill-point space per generated history
        hot = sorted({j + d for j, p in enumerate(points) if p[1] in ("emptyDirectory", "removePath", "hashWorkspace", "runShell")
                      for d in (-1, 0, 1) if 0 <= j + d < K})
        for n, x in enumerate(case.get("extra") or []):
            if snap is None:
                break
            if isinstance(x, list):
                k = 1 + (x[1] - 1) % K                  # hand-written cases name the kill point directly
            else:
                k = 1 + (hot[x % len(hot)] if hot and x % 2 else x % K)
            W2 = os.path.join(base, "w")            # same path: workspaces may record their location
            vlib.rmtree(W2)
            shutil.copytree(snap, W2, symlinks=True)
            C1.reset_events(W2)
            desc = ["exit at kill point %d/%d (%s %s)" % (k, K, points[k-1][1], points[k-1][2])]
            run_patched(confirm, W2, argv(final), C1.env_for(W2), os.path.join(base, "pointsx%d.log" % n), kill_at=k)
            bobproc.remove_stale_lock(W2)
            r2 = run(W2, C1.build_argv(final, mode, None), env_extra=C1.env_for(W2))
            ctx.label("extra-kill-point")
            if r2.rc != 0:
                ctx.fail("build-after-abort-fails", "after %r the next invocation fails: %s" % (desc, r2.err[-600:]), dict(case, faults=[["exit", k - 1, 0]], extra=[]))
            dw2, _ = C1.dist_map(run, W2, final, mode)
            for name, dpath in sorted(dx.items()):
                if dw2 is None or name not in dw2:
                    ctx.fail("result-missing-after-abort", "after %r package %s has no result" % (desc, name), dict(case, faults=[["exit", k - 1, 0]], extra=[]))
                cw, cx = treecanon.canon(os.path.join(W2, dw2[name])), treecanon.canon(os.path.join(X, dpath))
                if cw != cx:
                    ctx.fail("result-differs-after-abort", "after %r package %s differs from the clean build: %r" %
                             (desc, name, treecanon.diff(cw, cx, 3)), dict(case, faults=[["exit", k - 1, 0]], extra=[]))
    finally:
        vlib.rmtree(base)

I = st.integers(0, 400)
fault_st = st.one_of(st.tuples(st.just("fail"), I, I), st.tuples(st.just("killstep"), I, I),
                     st.tuples(st.just("exit"), I, I), st.tuples(st.just("exit"), I, I), st.tuples(st.just("exit"), I, I)).map(list)
def case_st(quick):
    return st.fixed_dictionaries({
        "model": projgen.model_st(2, 5 if quick else 6, richness=1),
        "edits": st.lists(projgen.build_edit_st, min_size=1, max_size=3),
        "mode": st.sampled_from(["dev", "dev", "build"]),
        "force": st.booleans(),
        "faults": st.lists(fault_st, min_size=1, max_size=2),
        "extra": st.lists(I, min_size=0 if quick else 2, max_size=3 if quick else 6),
    })

def check(ctx, case):
    try:
        run_case(ctx, case)
    except Violation as v:
        try:
            run_case(ctx, case, confirm=True)
        except Violation as w:
            raise w
        ctx.label("unconfirmed-in-fresh-process:" + v.signature)

def shard(ctx):
    bobproc.warm()
    run_hypothesis(ctx, case_st(ctx.quick()), lambda c: check(ctx, c), ctx.n(640, 6000), shrink=False, minimize=("faults", "edits"))

def replay(ctx, case):
    check(ctx, case)          # in-process first; a failure is confirmed with real processes before it is reported

FINDINGS = {}
