"""C19 - Archive retention keeps exactly what is selected or referenced."""
import os, io, gzip, json, tarfile, hashlib, itertools, shutil
from hypothesis import strategies as st

import vlib
from vlib import bobproc
from vlib.runner import run_hypothesis, Violation, jhash

PROP = "C19"
LEVEL = "exploration"
RULE = ("Generated file archives (3-14 real .tgz artifacts whose audit trails form a reference DAG through "
        "build-step records, tools and sandbox; meta/build/metaEnv fields from small value sets incl. missing "
        "fields and build.date ties) and histories of scan / add / remove-behind-Bob's-back / re-upload (same build-id, optionally new meta data) / delete "
        "index / clean / clean --dry-run / clean -n / find / find -n with expression lists generated from the "
        "documented grammar (comparisons, && || !, parentheses, LIMIT, ORDER BY ASC|DESC). Oracle: a reference "
        "evaluator over the artifacts actually on disk (with -n: as of the last scan): the kept set must be the "
        "reference closure of SOME valid selection (LIMIT ties free, missing sort field last), everything else must "
        "be deleted, --dry-run changes nothing and prints a valid deletion set, find prints a valid direct "
        "selection, erroneous expressions fail and delete nothing. Non-trivial: a clean with LIMIT smaller than "
        "the number of matches that kept >=1 artifact only because it is referenced and deleted >=1; distinct = "
        "hash of (archive, history).")
ASSUMPTIONS = ["'undefined == undefined' and errors hidden behind short-circuit evaluation are not defined by the "
               "manual: such expressions are skipped (counted)"]
TIME_BUDGET = {"quick": 240, "thorough": 1500}

PACKAGES = ["root", "root/lib", "app", "lib-a"]
RECIPES = ["root", "lib", "app"]
DATES = ["2020-01-01T00:00:00+00:00", "2020-01-02T00:00:00+00:00", "2020-01-02T00:00:00+00:00",
         "2020-01-03T10:00:00+00:00", "2019-12-31T23:59:59+00:00", "2020-01-04T00:00:00+00:00",
         "2020-02-01T00:00:00+00:00", None]
LICENSES = ["GPL", "MIT", None, None]
MACHINES = ["x86_64", "arm"]
FIELDS = ["meta.package", "meta.recipe", "meta.step", "build.date", "build.machine", "metaEnv.LICENSE",
          "metaEnv.NOPE", "bogus.field", "meta.jenkins-node"]
STRINGS = PACKAGES + RECIPES + [d for d in DATES if d] + ["GPL", "MIT", "x86_64", "arm", "dist", "", "2020-01-02", "q\"x"]
OPS = ["==", "!=", "<", "<=", ">", ">="]

def bid(i):
    return hashlib.sha1(b"bid%d" % i).digest()

def relname(i):
    h = bid(i).hex()
    return os.path.join(h[0:2], h[2:4], h[4:] + "-1.tgz")

# --------------------------------------------------------------------------------------- archive writer
def _rec(aid, vid, b, step, meta, build, deps, metaenv=None):
    r = {"artifact-id": aid, "variant-id": vid, "build-id": b, "result-hash": "00" * 20,
         "meta": dict(meta, step=step), "build": build, "env": "", "scms": [], "dependencies": deps}
    if metaenv:
        r["metaEnv"] = metaenv
    return r

def audit_json(spec, specs):
    """audit trail of artifact `spec`; the reference chain goes dist -> build step -> dist of the deps"""
    i = spec["i"]
    hx = lambda s: hashlib.sha1(s.encode()).hexdigest()
    def meta_of(s):
        m = {"recipe": s["recipe"], "language": "bash", "bob": "0.25"}
        if s["package"] is not None: m["package"] = s["package"]
        return m
    def build_of(s):
        b = {"sysname": "Linux", "nodename": "n", "release": "r", "version": "v", "machine": s["machine"]}
        if s["date"] is not None: b["date"] = s["date"]
        return b
    refs = []
    dep_aids = []
    for j in spec["refs"]:
        s = specs[j]
        dep_aids.append(hx("dist%d" % j))
        refs.append(_rec(hx("dist%d" % j), hx("v%d" % j), bid(j).hex(), "dist", meta_of(s), build_of(s), {}))
    bdeps = {"args": dep_aids} if dep_aids else {}
    if spec.get("tools"):
        bdeps["tools"] = {}
        for n, j in enumerate(spec["tools"]):
            s = specs[j]
            bdeps["tools"]["t%d" % n] = hx("dist%d" % j)
            if j not in spec["refs"]:
                refs.append(_rec(hx("dist%d" % j), hx("v%d" % j), bid(j).hex(), "dist", meta_of(s), build_of(s), {}))
    refs.append(_rec(hx("build%d" % i), hx("vb%d" % i), hx("bb%d" % i), "build", meta_of(spec), build_of(spec), bdeps))
    top_deps = {"args": [hx("build%d" % i)]}
    if spec.get("sandbox") is not None:
        j = spec["sandbox"]; s = specs[j]
        top_deps["sandbox"] = hx("dist%d" % j)
        if j not in spec["refs"] and j not in (spec.get("tools") or []):
            refs.append(_rec(hx("dist%d" % j), hx("v%d" % j), bid(j).hex(), "dist", meta_of(s), build_of(s), {}))
    me = {"LICENSE": spec["license"]} if spec["license"] is not None else None
    art = _rec(hx("top%d" % i), hx("v%d" % i), bid(i).hex(), "dist", meta_of(spec), build_of(spec), top_deps, me)
    return {"artifact": art, "references": refs}

def write_artifact(arch, spec, specs, salt=0):
    p = os.path.join(arch, relname(spec["i"]))
    os.makedirs(os.path.dirname(p), exist_ok=True)
    aj = gzip.compress(json.dumps(audit_json(spec, specs)).encode(), mtime=salt)
    out = io.BytesIO()
    tf = tarfile.open(fileobj=out, mode="w", format=tarfile.PAX_FORMAT, pax_headers={"bob-archive-vsn": "1"})
    ti = tarfile.TarInfo("meta/audit.json.gz"); ti.size = len(aj)
    tf.addfile(ti, io.BytesIO(aj))
    ti = tarfile.TarInfo("content"); ti.type = tarfile.DIRTYPE
    tf.addfile(ti)
    ti = tarfile.TarInfo("content/f"); data = b"x%d" % spec["i"]; ti.size = len(data)
    tf.addfile(ti, io.BytesIO(data))
    tf.close()
    with open(p, "wb") as f:
        f.write(gzip.compress(out.getvalue(), 1, mtime=salt))

def direct_refs(spec):
    r = set(spec["refs"]) | set(spec.get("tools") or [])
    if spec.get("sandbox") is not None: r.add(spec["sandbox"])
    return r

# --------------------------------------------------------------------------------------- reference
class Err(Exception): pass
class Unspec(Exception): pass
UNDEF = object()

def data_of(spec):
    d = {"meta": {"recipe": spec["recipe"], "language": "bash", "bob": "0.25", "step": "dist"},
         "build": {"sysname": "Linux", "nodename": "n", "release": "r", "version": "v", "machine": spec["machine"]},
         "metaEnv": {}}
    if spec["package"] is not None: d["meta"]["package"] = spec["package"]
    if spec["date"] is not None: d["build"]["date"] = spec["date"]
    if spec["license"] is not None: d["metaEnv"]["LICENSE"] = spec["license"]
    return d

def val(o, data):
    if o[0] == "s":
        return o[1]
    cur = data
    for part in o[1].split("."):
        if isinstance(cur, dict) and part in cur:
            cur = cur[part]
        else:
            return UNDEF
    if not isinstance(cur, str):
        raise Err("invalid field reference")
    return cur

def evalp(e, data, lazy):
    k = e[0]
    if k == "cmp":
        l, r = val(e[2], data), val(e[3], data)
        op = e[1]
        if op in ("==", "!="):
            if l is UNDEF and r is UNDEF: raise Unspec()
            if l is UNDEF or r is UNDEF: return op == "!="
            return (l == r) if op == "==" else (l != r)
        if l is UNDEF or r is UNDEF: raise Err("ordering with undefined")
        return {"<": l < r, "<=": l <= r, ">": l > r, ">=": l >= r}[op]
    if k == "not":
        return not evalp(e[1], data, lazy)
    if k in ("and", "or"):
        a = evalp(e[1], data, lazy)
        if lazy and ((k == "and" and not a) or (k == "or" and a)):
            return a
        b = evalp(e[2], data, lazy)
        return (a and b) if k == "and" else (a or b)
    if k == "bare":
        raise Err("operand in boolean context")
    raise AssertionError(k)

def matches(expr, population, specs):
    """-> set of matching indices | raises Err / Unspec"""
    out = set()
    for i in sorted(population):
        d = data_of(specs[i])
        res = []
        for lazy in (True, False):
            try:
                res.append(("v", evalp(expr, d, lazy)))
            except Err:
                res.append(("e", None))
        if res[0] != res[1]:
            raise Unspec()
        if res[0][0] == "e":
            raise Err()
        if res[0][1]:
            out.add(i)
    return out

def valid_selections(rexpr, population, specs, cap=400):
    """all valid retained sets of one retention expression"""
    if rexpr.get("limit") is not None and rexpr["limit"] <= 0:
        raise Err()
    M = matches(rexpr["pred"], population, specs)
    n = rexpr.get("limit")
    if n is None or len(M) <= n:
        return [frozenset(M)]
    field = rexpr.get("order") or "build.date"
    asc = bool(rexpr.get("order")) and rexpr.get("dir") == "ASC"    # ASC/DESC only exist after ORDER BY
    keyed = []
    for i in M:
        v = val(["f", field], data_of(specs[i]))
        keyed.append((i, v))
    present = [(i, v) for i, v in keyed if v is not UNDEF]
    missing = [i for i, v in keyed if v is UNDEF]
    present.sort(key=lambda t: t[1], reverse=not asc)
    ordered_groups = []            # groups of equal keys, best first; missing last
    for key, grp in itertools.groupby(present, key=lambda t: t[1]):
        ordered_groups.append([i for i, _ in grp])
    if missing:
        ordered_groups.append(missing)
    must, need = [], n
    for g in ordered_groups:
        if len(g) <= need:
            must += g; need -= len(g)
            if need == 0: break
        else:
            combos = list(itertools.islice(itertools.combinations(g, need), cap + 1))
            if len(combos) > cap: raise Unspec()
            return [frozenset(must + list(c)) for c in combos]
    return [frozenset(must)]

def closure(sel, population, specs):
    keep = set(sel)
    todo = list(sel)
    while todo:
        i = todo.pop()
        if i not in population:        # no audit to read: nothing known about its references
            continue
        for j in direct_refs(specs[i]):
            if j not in keep:
                keep.add(j); todo.append(j)
    return keep

def valid_outcomes(rexprs, population, specs, cap=600):
    """-> list of (selected set, kept set within population)"""
    per = [valid_selections(r, population, specs) for r in rexprs]
    total = 1
    for p in per: total *= len(p)
    if total > cap: raise Unspec()
    outs = []
    for combo in itertools.product(*per):
        sel = frozenset().union(*combo)
        keep = closure(sel, population, specs) & set(population)
        outs.append((sel, frozenset(keep)))
    return outs

# --------------------------------------------------------------------------------------- rendering
PREC = {"or": 1, "and": 2, "cmp": 3, "not": 9, "bare": 10}
def render_pred(e, extra):
    it = iter(extra)
    def operand(o):
        if o[0] == "s":
            return '"' + o[1].replace('"', '\\"') + '"'
        return o[1]
    def r(e):
        k = e[0]
        if k == "cmp": s = "%s %s %s" % (operand(e[2]), e[1], operand(e[3]))
        elif k == "bare": s = operand(e[1])
        elif k == "not": s = "!" + paren(e[1], 9, False, True)
        else:
            s = "%s %s %s" % (paren(e[1], PREC[k], False), "&&" if k == "and" else "||", paren(e[2], PREC[k], True))
        for _ in range(next(it, 0)):
            s = "(" + s + ")"
        return s
    def paren(c, p, right, unary=False):
        s = r(c)
        cp = PREC[c[0]]
        if s.startswith("(") and s.endswith(")") and _one_group(s):
            return s
        if cp < p or (cp == p and right and not unary):
            return "(" + s + ")"
        return s
    return r(e)

def _one_group(s):
    d = 0
    q = False
    for i, c in enumerate(s):
        if c == '"' and (i == 0 or s[i-1] != "\\"): q = not q
        if q: continue
        if c == "(": d += 1
        elif c == ")":
            d -= 1
            if d == 0 and i != len(s) - 1:
                return False
    return d == 0

def render(rexpr):
    s = render_pred(rexpr["pred"], rexpr.get("parens", []))
    if rexpr.get("limit") is not None:
        s += " %s %d" % (rexpr.get("kw", "LIMIT"), rexpr["limit"])
        if rexpr.get("order"):
            s += " ORDER BY %s" % rexpr["order"]
            if rexpr.get("dir"):
                s += " " + rexpr["dir"]
    return s

# --------------------------------------------------------------------------------------- the check
def present_on_disk(arch, n):
    return {i for i in range(n) if os.path.exists(os.path.join(arch, relname(i)))}

def parse_listing(out, n):
    names = {relname(i): i for i in range(n)}
    got = set()
    for line in out.splitlines():
        t = line.strip()
        if t in names:
            got.add(names[t])
    return got

def run_case(ctx, case, confirm=False):
    import copy
    specs = copy.deepcopy(case["artifacts"])      # re-uploads may change meta data (same build-id, new build)
    n = len(specs)
    scanned_specs = specs                          # what the index knows (as of the last scan)
    base = ctx.tmpdir()
    arch = os.path.join(base, "arch")
    os.makedirs(arch)
    run = bobproc.script if confirm else bobproc.direct
    try:
        disk = set()
        for s in specs:
            if s["initial"]:
                write_artifact(arch, s, specs); disk.add(s["i"])
        indexed = None          # population as of the last scan (None: never scanned)
        nontriv = False
        labels = set()
        salt = 0
        for step, op in enumerate(case["history"]):
            k = op[0]
            where = "step %d %r" % (step, op[:2])
            if k == "add":
                i = op[1] % n
                if i not in disk:
                    salt += 1; write_artifact(arch, specs[i], specs, salt); disk.add(i)
            elif k == "remove":
                i = op[1] % n
                if i in disk:
                    os.unlink(os.path.join(arch, relname(i))); disk.discard(i)
            elif k == "reupload":
                i = op[1] % n
                if i in disk:
                    salt += 1; os.unlink(os.path.join(arch, relname(i)))
                    if len(op) > 2 and op[2] % 3:
                        # same build-id built again elsewhere: date / machine / license / package path differ
                        specs = copy.deepcopy(specs)
                        specs[i]["date"] = DATES[op[2] % len(DATES)]
                        specs[i]["machine"] = MACHINES[op[2] % 2]
                        specs[i]["license"] = LICENSES[(op[2] // 2) % len(LICENSES)]
                        specs[i]["package"] = (PACKAGES + [None])[(op[2] // 3) % (len(PACKAGES) + 1)]
                        labels.add("reupload-changed-meta")
                    write_artifact(arch, specs[i], specs, salt)
            elif k == "rmindex":
                for f in os.listdir(arch):
                    if f.startswith(".bob-archive"):
                        os.unlink(os.path.join(arch, f))
                indexed = None
            elif k == "scan":
                r = run(arch, ["archive", "-l", "scan"])
                if r.rc != 0:
                    ctx.fail("scan-failed", "%s: bob archive scan failed: %s" % (where, r.err[-300:]), case)
                indexed = set(disk); scanned_specs = specs
            elif k in ("clean", "find"):
                noscan, dry = bool(op[2] & 1), bool(op[2] & 2) and k == "clean"
                rexprs = op[1]
                texts = [render(r) for r in rexprs]
                if noscan and indexed is None:
                    noscan = False
                pop = set(indexed) if noscan else set(disk)
                if not noscan:
                    scanned_specs = specs
                cur = scanned_specs if noscan else specs
                try:
                    outcomes = valid_outcomes(rexprs, pop, cur)
                    expect_err = False
                except Err:
                    expect_err = True
                except Unspec:
                    labels.add("unspecified")
                    # still execute to keep the history going, without judging
                    outcomes = None; expect_err = None
                argv = ["archive", "-l", k] + (["--dry-run"] if dry else []) + (["-n"] if noscan else []) + texts
                before = present_on_disk(arch, n)
                r = run(arch, argv)
                after = present_on_disk(arch, n)
                if not noscan:
                    indexed = set(before) if r.rc == 0 or True else indexed
                desc = "%s: `bob %s` on disk=%r" % (where, " ".join(repr(a) for a in argv), sorted(before))
                labels.add("%s%s%s" % (k, "-n" if noscan else "", "-dry" if dry else ""))
                if r.rc not in (0, 1):
                    ctx.fail("internal-error", "%s: exit status %d: %s" % (desc, r.rc, r.err[-400:]), case)
                if expect_err is None:
                    disk = after; indexed = (indexed & after) if indexed is not None else None
                    continue
                if expect_err:
                    labels.add("expr-error")
                    if r.rc == 0:
                        ctx.fail("erroneous-expression-accepted", "%s: the manual declares the expression erroneous but the "
                                 "command succeeded" % desc, case)
                    if after != before:
                        ctx.fail("deleted-despite-error", "%s failed but deleted %r" % (desc, sorted(before - after)), case)
                    continue
                if r.rc != 0:
                    ctx.fail("valid-expression-rejected", "%s failed: %s" % (desc, r.err[-400:]), case)
                if k == "find":
                    if after != before:
                        ctx.fail("find-deleted", "%s deleted %r" % (desc, sorted(before - after)), case)
                    got = parse_listing(r.out, n)
                    if not any(got == set(sel) for sel, keep in outcomes):
                        ctx.fail("find-wrong-set", "%s printed %r; valid direct selections: %r" %
                                 (desc, sorted(got), [sorted(s) for s, _ in outcomes[:4]]), case)
                    continue
                # clean
                if dry:
                    if after != before:
                        ctx.fail("dry-run-deleted", "%s deleted %r" % (desc, sorted(before - after)), case)
                    got = parse_listing(r.out, n)
                    valid = [set(pop) - set(keep) for _, keep in outcomes]
                    if got not in valid:
                        ctx.fail("dry-run-wrong-set", "%s printed %r; valid deletion sets: %r" % (desc, sorted(got), [sorted(v) for v in valid[:4]]), case)
                    continue
                # real clean: files outside the population (not indexed with -n) are untouched
                outside = before - pop
                kept_pop = after & pop
                ok = False
                for sel, keep in outcomes:
                    if kept_pop == (set(keep) & before) and outside <= after:
                        ok = True
                        def limited(rx):
                            try:
                                return rx.get("limit") is not None and len(matches(rx["pred"], pop, cur)) > rx["limit"]
                            except (Err, Unspec):
                                return False
                        if any(limited(rx) for rx in rexprs) and ((set(keep) & before) - set(sel)) and (before - after):
                            nontriv = True
                        if (set(keep) & before) - set(sel): labels.add("kept-by-reference")
                        if any(limited(rx) for rx in rexprs): labels.add("limit-effective")
                        break
                if not ok:
                    ctx.fail("clean-wrong-survivors", "%s left %r; valid survivor sets: %r (selected %r)" %
                             (desc, sorted(after), [sorted((set(keep) & before) | outside) for _, keep in outcomes[:4]],
                              [sorted(sel) for sel, _ in outcomes[:4]]), case)
                disk = after
                if indexed is not None:
                    indexed = indexed & after if noscan else set(after)
        ctx.record(jhash(case), nontriv, sorted(labels) + ["artifacts:%d" % (n // 4 * 4)],
                   {"artifacts": [(s["package"], s["date"], s["refs"]) for s in specs[:6]],
                    "history": [(o[0], [render(x) for x in o[1]] if o[0] in ("clean", "find") else o[1:]) for o in case["history"][:6]]})
    finally:
        vlib.rmtree(base)

# --------------------------------------------------------------------------------------- strategies
def artifacts_st(maxn):
    def mk(draw):
        n = draw(st.integers(3, maxn))
        out = []
        for i in range(n):
            refs = sorted(set(draw(st.lists(st.integers(0, i - 1), min_size=draw(st.integers(0, 1)), max_size=3)))) if i else []
            tools = sorted(set(draw(st.lists(st.integers(0, i - 1), max_size=1)))) if i else []
            sb = draw(st.one_of(st.none(), st.none(), st.integers(0, i - 1))) if i else None
            out.append({"i": i, "package": draw(st.sampled_from(PACKAGES + [None])), "recipe": draw(st.sampled_from(RECIPES)),
                        "date": draw(st.sampled_from(DATES)), "machine": draw(st.sampled_from(MACHINES)),
                        "license": draw(st.sampled_from(LICENSES)), "refs": refs, "tools": tools, "sandbox": sb,
                        "initial": draw(st.integers(0, 9)) > 0})
        return out
    return st.composite(lambda draw: mk(draw))()

field_st = st.sampled_from(FIELDS).map(lambda f: ["f", f])
good_field_st = st.sampled_from(FIELDS[:6]).map(lambda f: ["f", f])
str_st = st.sampled_from(STRINGS).map(lambda s: ["s", s])
cmp_st = st.one_of(
    st.builds(lambda o, l, r: ["cmp", o, l, r], st.sampled_from(OPS), good_field_st, str_st),
    st.builds(lambda o, l, r: ["cmp", o, l, r], st.sampled_from(["==", "!="]), field_st, str_st),
    st.builds(lambda o, l, r: ["cmp", o, l, r], st.sampled_from(OPS), st.one_of(field_st, str_st), st.one_of(field_st, str_st)),
)
def _pext(children):
    return st.one_of(st.builds(lambda a: ["not", a], children),
                     st.builds(lambda a, b: ["and", a, b], children, children),
                     st.builds(lambda a, b: ["or", a, b], children, children))
simple_pred = st.one_of(
    st.builds(lambda v: ["cmp", "==", ["f", "meta.package"], ["s", v]], st.sampled_from(PACKAGES)),
    st.builds(lambda v: ["cmp", "==", ["f", "meta.recipe"], ["s", v]], st.sampled_from(RECIPES)),
    st.builds(lambda v: ["cmp", ">=", ["f", "meta.recipe"], ["s", v]], st.sampled_from(RECIPES)),
    st.builds(lambda v: ["not", ["cmp", "==", ["f", "metaEnv.LICENSE"], ["s", v]]], st.sampled_from(["GPL", "MIT"])))
pred_st = st.recursive(st.one_of(cmp_st, cmp_st, cmp_st, cmp_st, cmp_st, cmp_st, cmp_st,
                                 st.one_of(field_st, str_st).map(lambda o: ["bare", o])), _pext, max_leaves=4)
rexpr_st = st.fixed_dictionaries({
    "pred": st.one_of(pred_st, simple_pred), "parens": st.lists(st.integers(0, 1), max_size=5),
    "limit": st.one_of(st.none(), st.integers(1, 3), st.integers(1, 3), st.integers(0, 6)),
    "order": st.one_of(st.none(), st.sampled_from(["build.date", "meta.package", "metaEnv.LICENSE", "meta.recipe", "build.nope"])),
    "dir": st.sampled_from([None, "ASC", "DESC"]), "kw": st.sampled_from(["LIMIT", "LIMIT", "limit"]),
})
I = st.integers(0, 40)
hist_op = st.one_of(
    st.tuples(st.just("add"), I), st.tuples(st.just("remove"), I), st.tuples(st.just("remove"), I),
    st.tuples(st.just("reupload"), I, I), st.tuples(st.just("reupload"), I, I), st.tuples(st.just("rmindex")), st.tuples(st.just("scan")),
    st.tuples(st.just("clean"), st.lists(rexpr_st, min_size=1, max_size=3), st.integers(0, 3)),
    st.tuples(st.just("clean"), st.lists(rexpr_st, min_size=1, max_size=2), st.integers(0, 3)),
    st.tuples(st.just("find"), st.lists(rexpr_st, min_size=1, max_size=2), st.integers(0, 1)),
).map(list)
def case_st(quick):
    return st.fixed_dictionaries({"artifacts": artifacts_st(9 if quick else 14),
                                  "history": st.lists(hist_op, min_size=2, max_size=8 if quick else 12)})

def check(ctx, case):
    try:
        run_case(ctx, case)
    except Violation as v:
        # direct mode shares the interpreter between Bob invocations: confirm in fresh processes
        try:
            run_case(ctx, case, confirm=True)
        except Violation:
            raise v
        ctx.label("unconfirmed-in-fresh-process")

def shard(ctx):
    bobproc.warm()
    run_hypothesis(ctx, case_st(ctx.quick()), lambda c: check(ctx, c), ctx.n(4800, 48000), shrink=False,
                   minimize=("history", "artifacts"))

def replay(ctx, case):
    run_case(ctx, case, confirm=True)

def _f_ghost(sig, case, detail):
    """index rows of artifacts that vanished from the archive still take part in the query"""
    if sig not in ("clean-wrong-survivors", "find-wrong-set", "dry-run-wrong-set"):
        return False
    seen_scan = False
    removed_after_scan = False
    for op in case["history"]:
        if op[0] in ("scan", "clean", "find"):
            if removed_after_scan and op[0] in ("clean", "find"):
                return True
            seen_scan = True
        if op[0] == "remove" and seen_scan:
            removed_after_scan = True
    return False
FINDINGS = {"C19-ghost-index-rows": _f_ghost}
