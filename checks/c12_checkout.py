"""C12 - Checkouts converge to the recipe and never destroy user work.

Deviations from DESIGN.md section 3 / C12 (everything else as designed):
* the upstream universe is written by an own loose-object writer (vlib/srcuni.py) instead of git processes; the
  user side uses real git.  `git fsck --strict` accepts the repositories (checked while developing).
* `rebase: True` SCMs and managed layers are not generated (quick tier budget); upstream branches therefore only
  move fast-forward and tags never move, in every case.
* a workspace instance counts as "touched" from the first user action until it leaves the workspace (identity =
  inode of the SCM directory, which a rename into the attic preserves); the fresh directory that replaces an
  instance moved to the attic is untouched again and must converge.
* Bob exits with the status of the failed command (e.g. 128 from git), so "refused" = any non-zero status without a
  traceback; a traceback / "internal Exception" / death by signal is reported as internal-error.
* oracle A is not evaluated when the final spec has no SCM at all (no checkout step exists; the old directory is
  unreferenced garbage for `bob clean -s`).
* most `bob dev` invocations run with `-B --no-audit` to save processes (see ASSUMPTIONS).
"""
import os, json, shutil, hashlib, stat, time
from hypothesis import strategies as st

import vlib
from vlib import bobproc, treecanon, srcuni
from vlib.runner import run_hypothesis, Violation, jhash

PROP = "C12"
LEVEL = "exploration"
RULE = ("Generated source universes (1-3 local bare git repositories: linear branches forking from each other, "
        "lightweight/annotated tags, unrelated repositories and forks that are ahead/behind/diverged; plain files and a "
        "tarball behind file:// URLs / plain paths with/without SHA1/SHA256 digests; import directories) and a root "
        "recipe with 0-3 checkoutSCM entries (git by branch/tag/commit/branch+commit/branch+tag, url, import with/without "
        "prune; dirs '.', one level, nested in legal order, two-level, siblings whose names share a prefix: a / a-x, "
        "n / n2). History = 2-3 rounds (thorough: up to 6) of [0-3 "
        "user actions in git source workspaces: modify tracked file, untracked file, commit on current branch, commit "
        "on new branch, commit on a side branch and back, commit on the configured branch then a new branch at an "
        "upstream tip ('review'), branch switch, detached HEAD + commit - each plants a unique marker][0-2 recipe edits (repo/url, "
        "ref, dir, add/remove/reorder SCM, digest refresh, 'bump' = upstream publishes and the recipe follows) or "
        "upstream events (commit, branch, tag, new unrelated/forked repository, replaced url file, import file "
        "add/modify/delete)][one Bob invocation: dev, dev --clean-checkout, dev --no-attic, clean, clean -s (also "
        "after dropping all SCMs), clean --attic; never forced]; one case in four is a clean scenario (one kind of user "
        "state, an edit that retires the workspace, dev, clean --attic, drop all SCMs, clean -s), one in eight has no "
        "user action at all (pure convergence), one in eight has two SCMs in prefix-sharing sibling dirs of which the "
        "shorter named one is retired by an edit, one in eight is a branch+commit/tag spec whose pin moves after a user "
        "action. Oracle B after EVERY invocation regardless of its "
        "exit status: every file marker exists byte-identical in a file below the project root, every commit marker "
        "is in `git rev-list --all HEAD` of a repository below the project root. Oracle A at the end: after a final "
        "`bob dev root`, if a fresh `bob dev root` of the final spec at another path succeeds, the incremental "
        "invocation succeeded too (unless a touched instance is still in the workspace) and canon(workspace) == "
        "canon(fresh) outside touched instances. Non-trivial: a recipe edit hit an instance carrying >=1 live user "
        "marker and Bob switched it inline or moved it to the attic; distinct = hash of the case.")
ASSUMPTIONS = ["user actions happen only inside directories owned by a git SCM; the marker files live at the top level "
               "of that directory (not inside a nested SCM directory)",
               "upstream never rewrites history and never moves or re-uses a tag name; import files get strictly "
               "increasing mtimes from a logical clock, url files real modification times (an upstream change is "
               "younger than every earlier build - the url SCM compares with the time of its last extraction)",
               "all policies at their new behaviour (bobMinimumVersion 1.0): import prunes, commit/tag + branch is "
               "checked against the branch, url downloads are kept outside the workspace when extracted",
               "import SCM with prune: False is exempt from oracle A once its source directory lost a file (documented)",
               "most `bob dev` invocations carry -B --no-audit (fewer processes; neither option takes part in the "
               "checkout/attic logic), some are the plain command; gc.auto=0 / maintenance.auto=false for all git "
               "processes started by Bob (git gc never runs)",
               "Bob runs inside the harness process; every suspected violation is re-run with the real `bob` script in "
               "fresh processes before it is reported"]
TIME_BUDGET = {"quick": 200, "thorough": 1500}
BATCH = 16     # (Hypothesis starts every batch with the minimal example: small batches waste cases)

WS = "dev/src/root/1/workspace"
SRCBASE = "dev/src/root/1"
DIRS = [".", "a", "b", "n", "a/n", "a-x", "n2"]      # a-x / n2: SIBLINGS whose names merely start with a / n (append only:
                                                      # corpus cases refer to directories by index)
USER_KINDS = ["modify", "untracked", "commit", "newbranch", "switch", "detach", "sidebranch", "review"]
# -B (checkout only) and --no-audit keep the number of processes per invocation down (process creation dominates the
# cost of this check); neither option takes part in the checkout/attic/clean logic.  "dev-full" is the plain command.
LEAN = ["-B", "--no-audit"]
BOB_VARIANTS = {"dev": ["dev", "root"] + LEAN, "dev-full": ["dev", "root"],
                "dev-cc": ["dev", "root", "--clean-checkout"] + LEAN,
                "dev-noattic": ["dev", "root", "--no-attic"] + LEAN, "clean": ["clean"],
                "clean-s": ["clean", "-s"], "clean-attic": ["clean", "--attic"]}


def depth(d):
    return 0 if d == "." else d.count("/") + 1


def under(path, d):
    """is relative path `path` equal to or below directory d"""
    return d == "." or path == d or path.startswith(d + "/")


# ------------------------------------------------------------------------------------------- model
class Sim:
    """universe + current SCM list of the root recipe; pure model when uni_root is None"""
    def __init__(self, case, uni_root, project):
        self.u = srcuni.Universe(uni_root, project)
        self.spec = []
        for op in case.get("pre", []):
            self.upstream(op)
        for e in case.get("spec", []):
            self._add(len(self.spec), e)
        self._legalize()

    # -- resolution of symbolic entries against the universe as it is now
    def resolve(self, e):
        u = self.u
        d = e["dir"]
        if e["t"] == "git":
            r = u.repo(e["src"])
            res = {"scm": "git", "url": u.repo_url(e["src"], e["opt"] & 1)}
            kind, bi, ci = e["ref"][0] % 5, e["ref"][1], e["ref"][2]
            b = r.order[bi % len(r.order)]
            hist = r.branches[b]
            if kind == 0:
                res["branch"] = b
            elif kind == 1:
                res["tag"] = r.tagorder[ci % len(r.tagorder)]
            elif kind == 2:
                res["commit"] = hist[ci % len(hist)]
            elif kind == 3:
                res["branch"] = b; res["commit"] = hist[ci % len(hist)]
            else:
                on = [t for t in r.tagorder if r.tags[t][0] in hist]
                res["branch"] = b
                if on:
                    res["tag"] = on[ci % len(on)]
        elif e["t"] == "url":
            k = e["src"] % u.NFILES
            res = {"scm": "url", "url": u.file_url(k, (e["opt"] // 3) & 1)}
            dk = e["opt"] % 3
            if dk == 1: res["digestSHA1"] = u.file_digest(k, "sha1")
            elif dk == 2: res["digestSHA256"] = u.file_digest(k, "sha256")
        else:
            res = {"scm": "import", "url": u.import_rel(e["src"])}
            if e["opt"] & 1: res["prune"] = False
        if d != ".":
            res["dir"] = d
        e["res"] = res
        return e

    def _mk(self, sym):
        e = {"t": sym["t"], "src": sym["src"], "ref": list(sym["ref"]), "dir": DIRS[sym["dir"] % len(DIRS)], "opt": sym["opt"]}
        return self.resolve(e)

    def _add(self, pos, sym):
        if len(self.spec) >= 3:
            return
        self.spec.insert(pos % (len(self.spec) + 1), self._mk(sym))

    def _legalize(self):
        seen, out = set(), []
        for e in self.spec:
            if e["dir"] in seen:
                continue
            seen.add(e["dir"]); out.append(e)
        out.sort(key=lambda e: depth(e["dir"]))       # stable: parents before nested, order otherwise kept
        # Bob rejects (parse error) a git SCM nested into the directory of an SCM without Jenkins plugin (url, import)
        self.spec = [e for e in out if not (e["t"] == "git" and any(
            o["t"] != "git" and o["dir"] != e["dir"] and under(e["dir"], o["dir"]) for o in out))]

    def edit(self, op):
        k = op[0]
        if k == "e_add":
            self._add(op[1], op[2])
        elif k == "e_clear":
            self.spec = []
        elif not self.spec:
            return
        else:
            i = op[1] % len(self.spec)
            e = self.spec[i]
            if k == "e_src":
                e["src"] = op[2]; self.resolve(e)
            elif k == "e_ref":
                e["ref"] = list(op[2])
                if e["t"] != "git": e["opt"] = op[2][2]
                self.resolve(e)
            elif k == "e_dir":
                e["dir"] = DIRS[op[2] % len(DIRS)]; self.resolve(e)
            elif k == "e_del":
                del self.spec[i]
            elif k == "e_swap":
                j = (i + 1) % len(self.spec)
                self.spec[i], self.spec[j] = self.spec[j], self.spec[i]
            elif k == "e_refresh":
                self.resolve(e)
            elif k == "e_bump":
                # upstream publishes something new and the recipe follows it
                u = self.u
                if e["t"] == "url":
                    u.set_file(e["src"]); self.resolve(e)
                elif e["t"] == "imp":
                    u.import_event(e["src"], 0, op[2])
                else:
                    r = u.repo(e["src"])
                    kind, bi = e["ref"][0] % 5, e["ref"][1]
                    b = u.ev_commit(e["src"], bi, op[2], op[2])
                    hist = r.branches[b]
                    if kind == 1:
                        u.ev_tag(e["src"], bi, len(hist) - 1, op[2] & 1)
                        e["ref"][2] = len(r.tagorder) - 1
                    elif kind == 4:
                        u.ev_tag(e["src"], bi, len(hist) - 1, op[2] & 1)
                        e["ref"][2] = len([t for t in r.tagorder if r.tags[t][0] in hist]) - 1
                    else:
                        e["ref"][2] = len(hist) - 1
                    self.resolve(e)
        self._legalize()

    def upstream(self, op):
        u, k = self.u, op[0]
        if k == "u_commit": u.ev_commit(op[1], op[2], op[3], op[4])
        elif k == "u_branch": u.ev_branch(op[1], op[2], op[3])
        elif k == "u_tag": u.ev_tag(op[1], op[2], op[3], op[4])
        elif k == "u_repo": u.ev_new_repo(op[1])
        elif k == "u_file": u.set_file(op[1], bool(op[2]) if len(op) > 2 else False)
        elif k == "u_imp": u.import_event(op[1], op[2], op[3])

    def by_dir(self):
        return {e["dir"]: e for e in self.spec}

    def recipe_text(self):
        lines = ["root: True"]
        if self.spec:
            lines.append("checkoutSCM:")
            for e in self.spec:
                first = True
                for key, val in e["res"].items():
                    v = json.dumps(val) if isinstance(val, str) else ("True" if val is True else "False" if val is False else str(val))
                    lines.append("  %s %s: %s" % ("-" if first else " ", key, v))
                    first = False
        lines += ['buildScript: "true"', 'packageScript: "true"', ""]
        return "\n".join(lines)


# ------------------------------------------------------------------------------------------- execution
class Run:
    def __init__(self, ctx, case, base, confirm):
        self.ctx, self.case, self.base = ctx, case, base
        self._bob = bobproc.script if confirm else bobproc.direct
        self.sec = {"bob": 0.0, "user": 0.0, "B": 0.0, "A": 0.0}
        self.W = os.path.join(base, "w")
        self.X = os.path.join(base, "other", "place", "x")
        self.home = os.path.join(self.W, ".home")
        os.makedirs(self.W); os.makedirs(self.home)
        self.sim = Sim(case, os.path.join(base, "uni"), self.W)
        self.ws = os.path.join(self.W, WS)
        self.markers = []            # {n, kind: file|commit, what, content|sha, dir, ino, name, live}
        self.touched = set()         # inodes of SCM directory instances the user acted in
        self.detached_commit = set() # instances holding a user commit made on a detached HEAD
        self.applied = {}            # dir -> resolved spec (json) at the last successful dev invocation
        self.nmark = 0
        self.labels = set()
        self.nontrivial = False
        self.log = []                # human readable trace for violation details
        self.rtime = 0
        self.invocations = 0

    def bob(self, project, argv):
        t = time.time()
        try:
            return self._bob(project, argv, env_extra=GIT_QUIET_ENV)
        finally:
            self.sec["bob"] += time.time() - t

    # ---- project files
    def render(self, root):
        os.makedirs(os.path.join(root, "recipes"), exist_ok=True)
        cfg = os.path.join(root, "config.yaml")
        if not os.path.exists(cfg):
            with open(cfg, "w") as f:
                f.write('bobMinimumVersion: "1.0"\n')
        p = os.path.join(root, "recipes", "root.yaml")
        with open(p, "w") as f:
            f.write(self.sim.recipe_text())
        self.rtime += 1
        t = srcuni.T0 + 5000000 + self.rtime * 10          # strictly increasing: the YAML cache is keyed by stat
        os.utime(p, (t, t))

    def ino(self, path):
        try:
            return os.stat(path).st_ino
        except OSError:
            return None

    def scm_dirs_present(self):
        """{dir: inode} of candidate SCM directories existing in the workspace"""
        out = {}
        for d in DIRS:
            i = self.ino(os.path.normpath(os.path.join(self.ws, d)))
            if i is not None:
                out[d] = i
        return out

    def attic_inodes(self):
        out = set()
        a = os.path.join(self.W, SRCBASE, "attic")
        try:
            for n in os.listdir(a):
                for base, dirs, files in os.walk(os.path.join(a, n)):
                    out.add(os.stat(base).st_ino)
                    if ".git" in dirs: dirs.remove(".git")
        except OSError:
            pass
        return out

    # ---- user actions
    def user(self, op):
        kind, slot = op[1], op[2]
        cands = [d for d in DIRS if os.path.isdir(os.path.join(self.ws, d, ".git"))]
        if not cands:
            self.labels.add("user-skipped:no-git-workspace"); return
        d = cands[slot % len(cands)]
        wd = os.path.normpath(os.path.join(self.ws, d))
        branch, head = srcuni.head_info(wd)
        if head is None:
            self.labels.add("user-skipped:no-HEAD"); return
        inode = self.ino(wd)
        self.nmark += 1
        n = self.nmark
        t = srcuni.T0 + 9000000 + n * 10      # own clock: user actions must not shift upstream commit ids
        g = lambda *a: srcuni.git(wd, a, self.home, t)

        def plant_file(name, what):
            content = ("user-marker-%d-%s\n" % (n, what)).encode()
            p = os.path.join(wd, name)
            for m in self.markers:
                if m["kind"] == "file" and m["live"] and m["ino"] == inode and m["name"] == name:
                    m["live"] = False           # the user himself overwrites his earlier edit
            with open(p, "wb") as f:
                f.write(content)
            self.markers.append({"n": n, "kind": "file", "what": what, "content": content, "dir": d, "ino": inode,
                                 "name": name, "live": True})

        def commit(what):
            name = "c%d.txt" % n
            with open(os.path.join(wd, name), "wb") as f:
                f.write(("user-commit-%d\n" % n).encode())
            rc, _, err = g("add", name)
            if rc == 0:
                rc, _, err = g("commit", "-q", "-m", "user commit %d" % n)
            if rc != 0:
                raise RuntimeError("harness: user commit failed in %s: %s" % (wd, err))
            b2, sha = srcuni.head_info(wd)
            self.markers.append({"n": n, "kind": "commit", "what": what, "sha": sha, "dir": d, "ino": inode,
                                 "name": name, "live": True})
            if b2 is None:
                self.detached_commit.add(inode)

        if kind == "modify":
            tracked = sorted(f for f in os.listdir(wd) if f[0] == "f" and f.endswith(".txt") and os.path.isfile(os.path.join(wd, f)))
            if not tracked:
                self.labels.add("user-skipped:no-tracked-file"); return
            plant_file(tracked[op[3] % len(tracked)], "modify")
        elif kind == "untracked":
            plant_file("m%d.txt" % n, "untracked")
        elif kind == "commit":
            commit("commit-on-" + ("branch" if branch else "detached-head"))
        elif kind == "newbranch":
            rc, _, err = g("checkout", "-q", "-b", "ub%d" % n)
            if rc != 0:
                raise RuntimeError("harness: checkout -b failed: " + err)
            commit("commit-on-new-branch")
        elif kind == "sidebranch":
            # a feature branch with a commit is left behind, the user is back where he was
            if branch is None:
                self.labels.add("user-skipped:sidebranch-from-detached-head"); return
            rc, _, err = g("checkout", "-q", "-b", "ub%d" % n)
            if rc != 0:
                raise RuntimeError("harness: checkout -b failed: " + err)
            commit("commit-on-side-branch")
            rc, _, err = g("checkout", "-q", branch)
            if rc != 0:
                raise RuntimeError("harness: checkout back failed: " + err)
        elif kind == "review":
            # a local commit on the branch the recipe configures, then off to a new branch at an upstream tip
            # (`git checkout -b review origin/master`): HEAD is pushed, the configured branch is not
            cfg = (self.sim.by_dir().get(d) or {}).get("res", {}).get("branch")
            if not cfg or cfg not in srcuni.local_branches(wd):
                self.labels.add("user-skipped:review-without-configured-branch"); return
            if branch != cfg:
                if branch is None and inode in self.detached_commit:
                    self.labels.add("user-skipped:switch-would-orphan-own-commit"); return
                rc, _, err = g("checkout", "-q", cfg)
                if rc != 0:
                    self.labels.add("user-skipped:switch-refused-by-git"); return
            commit("commit-on-configured-branch")
            rb = srcuni.remote_branches(wd)
            if rb:
                rc, _, err = g("checkout", "-q", "-b", "rv%d" % n, "origin/" + rb[op[3] % len(rb)])
                if rc != 0:
                    self.labels.add("user:review-branch-refused-by-git")
        elif kind == "switch":
            if branch is None and inode in self.detached_commit:
                self.labels.add("user-skipped:switch-would-orphan-own-commit"); return
            names = [b for b in sorted(set(srcuni.remote_branches(wd)) | set(srcuni.local_branches(wd))) if b != branch]
            if not names:
                self.labels.add("user-skipped:no-other-branch"); return
            cfg = (self.sim.by_dir().get(d) or {}).get("res", {}).get("branch")
            name = cfg if (op[3] % 2 == 0 and cfg in names) else names[op[3] % len(names)]
            rc, _, err = g("checkout", "-q", name)
            if rc != 0:
                self.labels.add("user-skipped:switch-refused-by-git"); return
        elif kind == "detach":
            rc, _, err = g("checkout", "-q", "--detach")
            if rc != 0:
                raise RuntimeError("harness: checkout --detach failed: " + err)
            commit("commit-on-detached-head")
        self.touched.add(inode)
        self.labels.add("user:" + kind)
        self.log.append("user %s in %s (marker %d)" % (kind, d, n))

    # ---- oracle B
    def check_B(self, where, r):
        live = [m for m in self.markers if m["live"]]
        if not live:
            return
        fm = [m for m in live if m["kind"] == "file"]
        if fm:
            want = {}
            for m in fm:
                want.setdefault(len(m["content"]), []).append(m)
            found = set()
            for base, dirs, files in os.walk(self.W):
                if ".git" in dirs: dirs.remove(".git")
                for fn in files:
                    p = os.path.join(base, fn)
                    try:
                        s = os.lstat(p)
                    except OSError:
                        continue
                    if stat.S_ISREG(s.st_mode) and s.st_size in want:
                        with open(p, "rb") as f:
                            found.add(f.read())
            for m in fm:
                if m["content"] not in found:
                    self.fail("user-file-lost", "%s: the user's %s (%s/%s, marker %d) is neither in the workspace nor in "
                              "an attic directory any more" % (where, m["what"], m["dir"], m["name"], m["n"]), r)
                    return False
        cm = [m for m in live if m["kind"] == "commit"]
        if cm:
            repos = srcuni.find_repos(self.W)
            byino = {self.ino(p): p for p in repos}
            cache = {}
            def reach(p):
                if p not in cache:
                    cache[p] = srcuni.reachable_commits(p, self.home)
                return cache[p]
            for m in cm:
                order = ([byino[m["ino"]]] if m["ino"] in byino else []) + [p for p in repos if byino.get(m["ino"]) != p]
                if not any(m["sha"] in reach(p) for p in order):
                    self.fail("user-commit-lost", "%s: the user's %s %s (made in %s, marker %d) is not reachable from any ref "
                              "or HEAD of any repository below the project root (%d repositories looked at)" %
                              (where, m["what"], m["sha"][:12], m["dir"], m["n"], len(repos)), r)
                    return False
        return True

    def fail(self, sig, detail, r=None):
        tail = ""
        if r is not None:
            tail = "\nbob exit status %s\n--- stdout\n%s\n--- stderr\n%s" % (r.rc, r.out[-1500:], r.err[-1500:])
        spec = [e["res"] for e in self.sim.spec]
        self.ctx.fail(sig, "%s\ntrace: %s\ncurrent checkoutSCM: %s%s" % (detail, "; ".join(self.log[-12:]), json.dumps(spec), tail),
                      self.case)
        raise Excluded()       # ctx.fail returned: listed known finding or already reported signature

    # ---- Bob invocations
    def invoke(self, variant):
        self.render(self.W)
        argv = BOB_VARIANTS[variant]
        before = self.scm_dirs_present()
        attic_before = self.attic_inodes()
        cur = {d: json.dumps(e["res"], sort_keys=True) for d, e in self.sim.by_dir().items()}
        marked = {m["ino"] for m in self.markers if m["live"]}
        r = self.bob(self.W, argv)
        self.invocations += 1
        where = "after invocation %d `bob %s` (exit %d)" % (self.invocations, " ".join(argv), r.rc)
        self.log.append("bob %s -> %d" % (" ".join(argv), r.rc))
        self.labels.add("bob:%s:%s" % (variant, "ok" if r.rc == 0 else "fail"))
        if crashed(r):
            self.fail("internal-error", "%s: Bob crashed instead of succeeding or refusing with an error" % where, r)
        after = self.scm_dirs_present()
        attic_after = self.attic_inodes()
        if variant.startswith("dev"):
            moved = attic_after - attic_before
            for d, i in before.items():
                changed = d in self.applied and cur.get(d) != self.applied[d]
                if i in moved:
                    self.labels.add("attic-move" + (":touched" if i in self.touched else ""))
                    if i in marked:
                        self.labels.add("attic-move:with-markers")
                        if changed: self.nontrivial = True
                elif changed and r.rc == 0 and after.get(d) == i and d in cur:
                    self.labels.add("inline-switch" + (":touched" if i in self.touched else ""))
                    if i in marked:
                        self.labels.add("inline-switch:with-markers")
                        self.nontrivial = True
                elif changed and r.rc != 0 and i in self.touched:
                    self.labels.add("refused-on-touched")
            if r.rc == 0:
                self.applied = dict(cur)
        else:
            gone = [d for d, i in before.items() if d not in after]
            if gone: self.labels.add("clean-removed-src")
            if attic_before - attic_after: self.labels.add("clean-removed-attic")
            if variant == "clean-s" and not self.sim.spec and before and not gone:
                self.labels.add("clean-s-kept-unused-src")
            for d in gone:
                self.applied.pop(d, None)
        t = time.time()
        try:
            self.check_B(where, r)
        finally:
            self.sec["B"] += time.time() - t
        return r

    # ---- oracle A
    def check_A(self, rW):
        sim = self.sim
        if not sim.spec:
            # no checkoutSCM -> no checkout step: the old directory is unreferenced garbage (bob clean -s), not a
            # source workspace of the final specification
            self.labels.add("A:final-spec-has-no-scm")
            return
        self.render(self.X)
        if os.path.isdir(os.path.join(self.W, "imports")):
            shutil.copytree(os.path.join(self.W, "imports"), os.path.join(self.X, "imports"), symlinks=True)
        rX = self.bob(self.X, ["dev", "root"] + LEAN)
        if crashed(rX):
            self.fail("internal-error", "fresh checkout: Bob crashed", rX)
        if rX.rc != 0:
            self.labels.add("A:fresh-checkout-fails")
            return
        present = self.scm_dirs_present()
        touched = sorted(d for d, i in present.items() if i in self.touched)
        exempt = list(touched)
        for e in sim.spec:
            if e["t"] == "imp" and (e["opt"] & 1) and (e["src"] % sim.u.NIMPORTS) in sim.u.import_deleted:
                exempt.append(e["dir"]); self.labels.add("A:exempt-import-noprune-after-delete")
        if rW.rc != 0:
            if touched:
                self.labels.add("A:skipped-failure-with-touched-instance")
                return
            self.fail("incremental-fails", "a fresh checkout of the final checkoutSCM succeeds, the user touched nothing that "
                      "is still in the workspace, but `bob dev root` fails in the incremental workspace", rW)
        if "." in exempt:
            self.labels.add("A:all-exempt")
            return
        wsX = os.path.join(self.X, WS)
        cW = treecanon.canon(self.ws) if os.path.isdir(self.ws) else []
        cX = treecanon.canon(wsX) if os.path.isdir(wsX) else []
        flt = lambda c: [x for x in c if not any(under(os.fsdecode(x[0]), d) for d in exempt)]
        cW, cX = flt(cW), flt(cX)
        self.labels.add("A:compared" + (":partly-exempt" if exempt else ""))
        if cW == cX:
            return
        # root-cause bucket: which kind of SCM owns the differing paths
        dW, dX = {x[0]: x for x in cW}, {x[0]: x for x in cX}
        diffs = sorted(os.fsdecode(k) for k in set(dW) | set(dX) if dW.get(k) != dX.get(k))
        owners = sorted(sim.spec, key=lambda e: -depth(e["dir"]))
        def owner(path):
            for e in owners:
                if under(path, e["dir"]):
                    return e
            return None
        def empty_extra_dir(path):
            k = os.fsencode(path)
            return k in dW and k not in dX and dW[k][1] == "d" and not any(os.fsdecode(o).startswith(path + "/") for o in dW)
        if all(empty_extra_dir(p) for p in diffs):
            bucket = "empty-dir-left"
        else:
            kinds = sorted(set((owner(p) or {"t": "no-scm"})["t"] for p in diffs if not empty_extra_dir(p)))
            bucket = "+".join(kinds)
        self.fail("untouched-differs:" + bucket, "source workspace differs from a fresh checkout of the same checkoutSCM outside the "
                  "directories the user touched (exempt: %r); (path, incremental, fresh): %r" %
                  (exempt, treecanon.diff(cW, cX, 6)), rW)

    # ---- whole case
    def run(self):
        r = self.invoke("dev")
        for op in self.case["history"]:
            k = op[0]
            if k == "user":
                t = time.time()
                self.user(op)
                self.sec["user"] += time.time() - t
            elif k == "bob":
                r = self.invoke(op[1] if op[1] in BOB_VARIANTS else "dev")
            elif k.startswith("u_"):
                self.sim.upstream(op); self.log.append("upstream %s" % (op,))
            else:
                self.sim.edit(op); self.log.append("edit %s" % (op,))
                self.labels.add("edit:" + k)
        rW = self.invoke("dev")
        t = time.time()
        try:
            self.check_A(rW)
        finally:
            self.sec["A"] += time.time() - t - 0   # includes the fresh checkout (also counted in bob)


def crashed(r):
    """a BuildError exits with the status of the failed command (1, 128, ...): only a traceback / signal is a crash"""
    return r.rc < 0 or "An internal Exception has occured" in r.err or "Traceback (most recent call last)" in r.err


class Excluded(Exception):
    pass


GIT_QUIET_ENV = {"GIT_CONFIG_COUNT": "2", "GIT_CONFIG_KEY_0": "gc.auto", "GIT_CONFIG_VALUE_0": "0",
                 "GIT_CONFIG_KEY_1": "maintenance.auto", "GIT_CONFIG_VALUE_1": "false"}


def run_case(ctx, case, confirm=False):
    base = ctx.tmpdir()
    run = Run(ctx, case, base, confirm)
    try:
        try:
            run.run()
        except Excluded:
            run.labels.add("excluded-or-suppressed")
        types = sorted(set(e["t"] for e in run.sim.spec))
        ctx.record(jhash(case), run.nontrivial,
                   sorted(run.labels) + ["scms:%d" % len(case["spec"]), "markers:%d" % min(len(run.markers), 4)],
                   {"spec": [e["res"] for e in run.sim.spec], "trace": run.log[:14]})
    finally:
        for k, v in run.sec.items():
            ctx.extra["sec_" + k] = round(ctx.extra.get("sec_" + k, 0) + v, 2)
        ctx.extra["bob_invocations"] = ctx.extra.get("bob_invocations", 0) + run.invocations
        vlib.rmtree(base)


# ------------------------------------------------------------------------------------------- strategies
I6 = st.integers(0, 5)
ref_st = st.tuples(st.integers(0, 4), st.integers(0, 3), I6).map(list)
entry_st = st.fixed_dictionaries({"t": st.sampled_from(["git", "git", "git", "git", "url", "imp"]), "src": I6, "ref": ref_st,
                                  "dir": st.sampled_from([0, 0, 0, 1, 1, 1, 2, 2, 3, 3, 4, 4, 5, 6]), "opt": st.integers(0, 7)})
up_st = st.one_of(
    st.tuples(st.just("u_commit"), I6, st.integers(0, 3), st.integers(0, 3), I6),
    st.tuples(st.just("u_commit"), I6, st.just(0), st.integers(0, 3), I6),
    st.tuples(st.just("u_branch"), I6, st.integers(0, 3), I6),
    st.tuples(st.just("u_tag"), I6, st.integers(0, 3), I6, st.integers(0, 1)),
    st.tuples(st.just("u_repo"), st.one_of(st.none(), st.integers(0, 2), st.integers(0, 2))),
    st.tuples(st.just("u_file"), st.integers(0, 2), st.integers(0, 1)),
    st.tuples(st.just("u_imp"), st.integers(0, 1), st.integers(0, 3), I6),
).map(list)
edit_st = st.one_of(
    st.tuples(st.just("e_src"), I6, I6), st.tuples(st.just("e_ref"), I6, ref_st), st.tuples(st.just("e_ref"), I6, ref_st),
    st.tuples(st.just("e_ref"), I6, ref_st), st.tuples(st.just("e_dir"), I6, st.integers(0, 6)),
    st.tuples(st.just("e_add"), I6, entry_st), st.tuples(st.just("e_del"), I6), st.tuples(st.just("e_swap"), I6),
    st.tuples(st.just("e_refresh"), I6), st.tuples(st.just("e_src"), I6, I6),
    st.tuples(st.just("e_bump"), I6, I6), st.tuples(st.just("e_bump"), I6, I6),
).map(list)
user_st = st.tuples(st.just("user"), st.sampled_from(USER_KINDS), st.integers(0, 2), I6).map(list)
BOB_WEIGHTED = ["dev"] * 7 + ["dev-full"] * 2 + ["dev-cc"] * 4 + ["dev-noattic"] * 2 + ["clean"] + ["clean-attic"] * 3 + ["clean-s"] + ["clear+clean-s"] * 2

@st.composite
def round_st(draw, users=True):
    # (one_of() merges identical alternatives, so weights are expressed through sampled_from)
    nuser = draw(st.sampled_from([0, 0, 1, 1, 1, 2, 2, 3])) if users else 0
    ops = [draw(user_st) for _ in range(nuser)]
    nchg = draw(st.sampled_from([0, 1, 1, 1, 2, 2] if users else [1, 1, 2, 2, 3]))
    for _ in range(nchg):
        ops.append(draw(edit_st) if draw(st.integers(0, 9)) < 6 else draw(up_st))
    v = draw(st.sampled_from(BOB_WEIGHTED))
    if v == "clear+clean-s":
        ops += [["e_clear"], ["bob", "clean-s"]]
    else:
        ops.append(["bob", v])
    return ops

@st.composite
def clean_scenario_st(draw):
    """one kind of user state, then the workspace leaves the recipe (attic / unreferenced) and `bob clean` decides"""
    kind = draw(st.sampled_from(USER_KINDS))
    slot = draw(st.integers(0, 2))
    ops = [["user", kind, slot, draw(I6)] for _ in range(draw(st.sampled_from([1, 1, 2])))]
    e = draw(st.sampled_from(["e_dir", "e_dir", "e_del", "e_src", "e_ref", "e_clear", "none"]))
    if e == "e_dir": ops.append([e, slot, draw(st.integers(0, 6))])
    elif e == "e_del": ops.append([e, slot])
    elif e == "e_src": ops.append([e, slot, draw(I6)])
    elif e == "e_ref": ops.append([e, slot, draw(ref_st)])
    elif e == "e_clear": ops.append([e])
    ops.append(["bob", draw(st.sampled_from(["dev", "dev", "dev-cc"]))])
    ops.append(["bob", "clean-attic"])
    if draw(st.integers(0, 1)):
        ops += [["e_clear"], ["bob", "clean-s"]]
    return ops

@st.composite
def sibling_history_st(draw):
    """the first SCM (directory a / n, its sibling a-x / n2 stays) is retired by a recipe edit, then builds"""
    ops = [draw(user_st) for _ in range(draw(st.sampled_from([0, 0, 1])))]
    e = draw(st.sampled_from(["e_dir", "e_del", "e_src", "e_src", "e_ref"]))
    if e == "e_dir": ops.append([e, 0, draw(st.sampled_from([2, 0, 4]))])
    elif e == "e_del": ops.append([e, 0])
    elif e == "e_src": ops.append([e, 0, draw(I6)])
    else: ops.append([e, 0, draw(ref_st)])
    ops.append(["bob", draw(st.sampled_from(["dev", "dev", "dev-cc", "dev-full"]))])
    if draw(st.integers(0, 2)) == 0:
        ops += draw(round_st())
    return ops

@st.composite
def pin_history_st(draw):
    """branch + commit/tag spec: some user state, then the pin moves (upstream publishes, the recipe follows / older pin)"""
    kinds = ["review", "review", "review", "commit", "modify", "sidebranch", "switch", "untracked"]
    ops = [["user", draw(st.sampled_from(kinds)), 0, draw(I6)] for _ in range(draw(st.sampled_from([1, 1, 2])))]
    if draw(st.integers(0, 2)):
        ops.append(["e_bump", 0, draw(I6)])
    else:
        ops.append(["e_ref", 0, [draw(st.sampled_from([3, 4])), 0, draw(I6)]])
    ops.append(["bob", draw(st.sampled_from(["dev", "dev", "dev-cc", "dev-full"]))])
    if draw(st.integers(0, 2)) == 0:
        ops += draw(round_st())
    return ops

@st.composite
def case_st(draw, quick=True):
    pre = draw(st.lists(up_st, max_size=3))
    n = draw(st.sampled_from([1, 1, 1, 2, 2, 3]))
    spec = [draw(entry_st) for _ in range(n)]
    if draw(st.integers(0, 7)):
        spec[0] = dict(spec[0], t="git")
    # shapes (Hypothesis prefers the first alternatives in its early examples: the general form comes first)
    #   0 general  1 no user action (pure convergence)  2 clean scenario  3 prefix-sharing sibling dirs  4 pin change
    shape = draw(st.sampled_from([0, 0, 0, 1, 2, 2, 3, 4]))
    general = lambda users: draw(st.lists(round_st(users=users), min_size=2, max_size=3 if quick else 6)
                                 .map(lambda rs: [o for r in rs for o in r]))
    if shape == 2:
        history = draw(clean_scenario_st())
    elif shape == 3:
        if n == 1:
            spec.append(draw(entry_st))
        a, b = draw(st.sampled_from([(1, 5), (1, 5), (3, 6)]))
        spec[0] = dict(spec[0], dir=a); spec[1] = dict(spec[1], dir=b)
        if len(spec) > 2:
            spec[2] = dict(spec[2], dir=2)          # keeps the retired SCM at index 0 after sorting by depth
        history = draw(sibling_history_st())
    elif shape == 4:
        ref = list(spec[0]["ref"]); ref[0] = draw(st.sampled_from([3, 3, 4]))
        spec[0] = dict(spec[0], t="git", ref=ref, dir=draw(st.sampled_from([0, 1])))
        spec = spec[:1]
        history = draw(pin_history_st())
    else:
        history = general(shape != 1)
    return {"pre": pre, "spec": spec, "history": history}


_failed = set()     # cases that raised a violation: Hypothesis replays them, the time guard must not skip them

def check(ctx, case):
    key = jhash(case)
    if ctx.out_of_time() and key not in _failed:
        # wall-clock guard inside a batch: the case is not executed and not judged (reported in the evidence)
        ctx.extra["cases_not_run_time_guard"] = ctx.extra.get("cases_not_run_time_guard", 0) + 1
        return
    try:
        if not ctx.quick() and int(key, 16) % 10 == 0:
            # thorough tier: every tenth case runs the real `bob` script in fresh processes (real process pool)
            try:
                ctx.label("ran-with-real-bob-script")
                run_case(ctx, case, confirm=True)
            except Violation:
                _failed.add(key)
                raise
            return
        run_case(ctx, case)
    except Violation as v:
        if key in _failed:
            raise
        try:
            run_case(ctx, case, confirm=True)
        except Violation as w:
            _failed.add(key)
            raise w
        ctx.label("unconfirmed-in-fresh-process:" + v.signature)


def shard(ctx):
    bobproc.warm()
    run_hypothesis(ctx, case_st(quick=ctx.quick()), lambda c: check(ctx, c), ctx.n(240, 3000), shrink=False,
                   minimize=("history", "pre", "spec"))


def replay(ctx, case):
    # in-process first (cheap: corpus seeds that pass need no fresh processes); a failure is confirmed with the real
    # `bob` script in fresh processes, and only that result is reported
    try:
        run_case(ctx, case)
    except Violation:
        run_case(ctx, case, confirm=True)


# ------------------------------------------------------------------------------------------- known findings
def _dev_points(case):
    """replay the symbolic history on the pure model: [(sim state snapshot at each `bob dev`, ops since the previous
    one)], the implicit first and final invocations included.  snapshot = {dir: (entry copy, info)}"""
    sim = Sim(case, None, None)
    def snap():
        out = {}
        for e in sim.spec:
            info = {}
            if e["t"] == "git" and "branch" in e["res"]:
                r = sim.u.repo(e["src"])
                hist = r.branches[e["res"]["branch"]]
                if "commit" in e["res"]: local = e["res"]["commit"]
                elif "tag" in e["res"]: local = r.tags[e["res"]["tag"]][0]
                else: local = hist[-1]
                info = {"local": local, "ancestry": list(hist[:hist.index(local) + 1]) if local in hist else [local],
                        "tip": hist[-1]}
            out[e["dir"]] = (json.loads(json.dumps(e)), info)
        return out
    points = [(snap(), [])]
    since = []
    for op in list(case["history"]) + [["bob", "dev"]]:
        k = op[0]
        if k == "bob":
            if BOB_VARIANTS.get(op[1], ["dev"])[0] == "dev":
                points.append((snap(), since)); since = []
        elif k == "user":
            pass
        elif k.startswith("u_"):
            sim.upstream(op); since.append(op)
        else:
            sim.edit(op); since.append(op)
    return points


def _f_url_digest(sig, case, detail):
    """structural: between two `bob dev` invocations a url SCM kept its dir and URL but got new digest attributes
    (changed, or added to a so far digest-less SCM): the file in the workspace is neither downloaded again nor moved away"""
    if sig != "incremental-fails" or "digest did not match" not in detail:
        return False
    dig = lambda r: (r.get("digestSHA1"), r.get("digestSHA256"))
    pts = _dev_points(case)
    for (a, _), (b, _) in zip(pts, pts[1:]):
        for d, (e, _) in b.items():
            o = a.get(d)
            if e["t"] == "url" and o is not None and o[0]["t"] == "url" and o[0]["res"]["url"] == e["res"]["url"] \
                    and dig(o[0]["res"]) != dig(e["res"]) and dig(e["res"]) != (None, None):
                return True
    return False


def _f_git_behind(sig, case, detail):
    """structural: the final spec tracks branch b (no tag/commit) in a directory that an earlier `bob dev` left on a
    commit of a local branch b of which the new upstream tip is a proper ancestor (url changed to a fork/mirror that
    lags behind): `merge --ff-only` says "Already up to date" and the workspace keeps the newer commits"""
    if not sig.startswith("untouched-differs") or "git" not in sig:
        return False
    pts = _dev_points(case)
    final = pts[-1][0]
    for d, (e, info) in final.items():
        if e["t"] != "git" or "commit" in e["res"] or "tag" in e["res"]:
            continue
        for snap, _ in pts[:-1]:
            o = snap.get(d)
            if o and o[0]["t"] == "git" and o[0]["res"].get("branch") == e["res"]["branch"] and o[1] \
                    and info["tip"] in o[1]["ancestry"] and info["tip"] != o[1]["local"]:
                return True
    return False


def _f_unowned_parent(sig, case, detail):
    """structural: an SCM lived in a two-level directory P/x whose parent P was not an SCM directory.  Nothing owns P:
    (a) when the SCM moves to the attic the empty P stays behind (final spec has nothing below P), and
    (b) an SCM that is later configured at P itself "collides with existing file" for ever."""
    a = sig == "untouched-differs:empty-dir-left"
    b = sig == "incremental-fails" and "collides with existing file" in detail
    if not (a or b):
        return False
    pts = _dev_points(case)
    final = pts[-1][0]
    for snap, _ in pts[:-1]:
        for d in snap:
            if depth(d) == 2:
                parent = d.split("/")[0]
                if parent in snap:
                    continue
                if a and not any(under(f, parent) for f in final):
                    return True
                if b and parent in final:
                    return True
    return False


def _f_tar_shrunk(sig, case, detail):
    """structural: a digest-less url SCM extracts a tarball that upstream replaced by one with fewer members while
    dir and URL stayed: the new tarball is extracted over the old tree"""
    if not sig.startswith("untouched-differs") or "url" not in sig:
        return False
    pts = _dev_points(case)
    final = pts[-1][0]
    nod = lambda r: "digestSHA1" not in r and "digestSHA256" not in r
    for i in range(len(pts) - 1):
        for d, (e, _) in pts[i][0].items():
            if e["t"] == "url" and e["res"]["url"].endswith(".tgz") and nod(e["res"]):
                f = final.get(d)
                if f and f[0]["t"] == "url" and f[0]["res"]["url"] == e["res"]["url"] and nod(f[0]["res"]) and \
                        any(op[0] == "u_file" and op[1] % 3 == 2 and len(op) > 2 and op[2] for _, ops in pts[i + 1:] for op in ops):
                    return True
    return False


FINDINGS = {"C12-url-digest-change-never-converges": _f_url_digest,
            "C12-git-url-switch-to-lagging-repo-keeps-newer-commits": _f_git_behind,
            "C12-parent-of-two-level-scm-dir-is-unowned": _f_unowned_parent,
            "C12-url-tarball-with-fewer-members-leaves-old-files": _f_tar_shrunk}
