"""C08 - Artifact packing is lossless, corruption is rejected, extraction is confined."""
import os, io, sys, stat, shutil, gzip, json, tarfile, hashlib
from hypothesis import strategies as st

from vlib import treecanon, bobproc
import vlib
from vlib.runner import run_hypothesis, Violation, jhash
from checks import c11_dirhash as T

PROP = "C08"
LEVEL = "exploration"
RULE = ("(1) round trip: generated trees (files 0..64KiB+, nested/empty dirs, dangling/absolute/.. symlinks, hard "
        "links, setuid/sticky/000 modes, unicode/shell-special/255-byte names, >100-char paths) are packed with "
        "LocalArchive._uploadPackage and extracted with _downloadPackage: canonical tree, hashDirectory and audit "
        "bytes must be equal. (2) corruption: truncations (all lengths in thorough), bit flips, wrong magic, plain "
        "tar, wrong bob-archive-vsn, missing/foreign audit, unknown entries: the download must fail/reject or the "
        "accepted tree+audit equal the original - decided at API level with the builder's acceptance steps and end "
        "to end through `bob dev --download=forced`. (3) confinement: archives from a grammar of hostile members "
        "(.., absolute, symlink-then-write, hard link with escaping linkname then same-named regular member, "
        "devices, duplicates, type flips, meta/..) are extracted inside a directory with canary files: nothing "
        "outside workspace+audit may change. Non-trivial: tree with a link and a special name / mutated artifact that "
        "still passes gzip header parsing / syntactically valid archive with a member resolving outside; distinct = "
        "hash of the case.")
ASSUMPTIONS = ["file names are valid UTF-8 (the property speaks of unicode names)", "runs as root (device nodes can be created)"]
TIME_BUDGET = {"quick": 200, "thorough": 1500}

NAMES = [n for n in T.NAMES if n != b"\xff\xfe"] + [b"$(x)", b"a\nb", b"'q'", b'"', b"\\", b"*", b"-rf",
        "😀".encode(), b"n" * 255, b"long" * 30, b" ", b"a;b|c&d", b"\xc3\xa9\xcc\x81", b"content", b"meta",
        b"audit.json.gz"]

def _bob():
    from bob import archive, audit, utils
    from bob.errors import BuildError, BobError
    return archive, audit, utils, BuildError, BobError

BID = bytes(range(20))

# link targets and names that coincide with the artifact's internal layout (content/, meta/)
LINK_TARGETS = T.LINK_TARGETS + [b"content/a", b"content", b"meta/audit.json.gz", b"content/../a", b"./content/x",
                                 b"a" * 120, b"$HOME", b"x y", "ü/😀".encode()]

def build_tree(root, ops):
    t = T.Tree(root)
    saved = T.NAMES
    T.NAMES = NAMES
    saved_l = T.LINK_TARGETS
    T.LINK_TARGETS = LINK_TARGETS
    try:
        for op in ops:
            try:
                T.apply(t, op)
            except OSError:
                pass            # name too long for the file system etc.: skipped
    finally:
        T.NAMES = saved
        T.LINK_TARGETS = saved_l
    return t

def make_audit(path, content, vid=b"\x01" * 20, bid=BID):
    archive, audit, utils, _, _ = _bob()
    a = audit.Audit.create(vid, bid, utils.hashDirectory(content))
    a.save(path)
    for extra in (path + ".pickle",):
        if os.path.exists(extra): os.unlink(extra)

def local_archive(path):
    archive = _bob()[0]
    return archive.LocalArchive({"backend": "file", "path": path})

def artifact_path(arch, bid=BID):
    h = bid.hex()
    return os.path.join(arch, h[0:2], h[2:4], h[4:] + "-1.tgz")

def silence():
    class S:
        def __enter__(self):
            self.o, self.e = sys.stdout, sys.stderr
            sys.stdout = sys.stderr = io.StringIO()
        def __exit__(self, *a):
            sys.stdout, sys.stderr = self.o, self.e
    return S()

# --------------------------------------------------------------------------------------- (1)
def check_roundtrip(ctx, case):
    archive, audit, utils, BuildError, BobError = _bob()
    base = ctx.tmpdir()
    try:
        src = os.path.join(base, "src", "workspace")
        os.makedirs(os.path.dirname(src))
        build_tree(src, case["ops"])
        a1 = os.path.join(base, "src", "audit.json.gz")
        make_audit(a1, src)
        arch = os.path.join(base, "arch")
        la = local_archive(arch)
        with silence():
            r = la._uploadPackage(BID, archive.ARTIFACT_SUFFIX, a1, src)
        c1 = treecanon.canon(src, ignore=False)
        dst = os.path.join(base, "dst", "workspace"); a2 = os.path.join(base, "dst", "audit.json.gz")
        os.makedirs(os.path.dirname(dst))
        with silence():
            ok = la._downloadPackage(BID, archive.ARTIFACT_SUFFIX, a2, dst, [], dst)
        kinds = {e[1] for e in c1}
        special = any(any(ch in e[0] for ch in b"$\n'\"\\* ;|&") or max(e[0]) > 127 for e in c1)
        ctx.record(jhash(case["ops"]), ("l" in kinds or len({os.lstat(os.path.join(os.fsencode(src), e[0])).st_ino for e in c1 if e[1] == "f"}) <
                                         sum(1 for e in c1 if e[1] == "f")) and special,
                   ["rt:entries:%d" % min(len(c1) // 5 * 5, 20)] + ["rt:kind:" + k for k in kinds],
                   {"layer": "roundtrip", "tree": treecanon.describe(c1, 8)})
        if not ok[0]:
            ctx.fail("roundtrip:download-failed", "download of a freshly packed artifact failed: %r" % (ok,), dict(case, layer="roundtrip"))
        c2 = treecanon.canon(dst, ignore=False)
        if c1 != c2:
            ctx.fail("roundtrip:tree-differs", "extracted tree differs: %r" % treecanon.diff(c1, c2), dict(case, layer="roundtrip"))
        h1, h2 = utils.hashDirectory(src), utils.hashDirectory(dst)
        if h1 != h2:
            ctx.fail("roundtrip:hash-differs", "directory hash differs %s %s" % (h1.hex(), h2.hex()), dict(case, layer="roundtrip"))
        if open(a1, "rb").read() != open(a2, "rb").read():
            ctx.fail("roundtrip:audit-differs", "audit trail bytes changed", dict(case, layer="roundtrip"))
    finally:
        vlib.rmtree(base)

# --------------------------------------------------------------------------------------- (2)
def mutate(data, m, other_audit=None):
    """-> mutated artifact bytes"""
    k = m[0]
    n = len(data)
    if k == "trunc":
        return data[: m[1] % n]
    if k == "flip":
        out = bytearray(data)
        for (pos, bit) in m[1]:
            out[pos % n] ^= 1 << (bit % 8)
        return bytes(out)
    if k == "magic":
        return b"XX" + data[2:]
    if k == "garbage-gz":
        return gzip.compress(hashlib.shake_128(b"%d" % m[1]).digest(3000))
    if k == "zero":
        return b""
    # structural rewrites: re-pack the tar with a change
    raw = gzip.decompress(data)
    src = tarfile.open(fileobj=io.BytesIO(raw), mode="r:")
    out = io.BytesIO()
    pax = dict(src.pax_headers)
    if k == "vsn":
        pax["bob-archive-vsn"] = ["0", "2", "", "1 "][m[1] % 4]
    if k == "novsn":
        pax.pop("bob-archive-vsn", None)
    dst = tarfile.open(fileobj=out, mode="w", format=tarfile.PAX_FORMAT, pax_headers=pax)
    members = src.getmembers()
    for i, ti in enumerate(members):
        f = src.extractfile(ti) if ti.isreg() else None
        payload = f.read() if f else None
        if k == "noaudit" and ti.name == "meta/audit.json.gz":
            continue
        if k == "otheraudit" and ti.name == "meta/audit.json.gz":
            payload = other_audit; ti.size = len(payload)
        if k == "content-change" and ti.isreg() and ti.name.startswith("content/") and payload is not None:
            if (m[1] % max(1, len(members))) == i or m[1] < 0:
                payload = payload + b"x" if m[2] % 2 else (payload[:-1] if payload else b"y")
                ti.size = len(payload)
        if k == "rename-member" and ti.name.startswith("content/") and (m[1] % len(members)) == i:
            ti.name = ti.name + "_"
        if k == "mode-change" and ti.name.startswith("content/") and (m[1] % len(members)) == i:
            ti.mode ^= 0o100
        dst.addfile(ti, io.BytesIO(payload) if payload is not None else None)
    if k == "unknown-entry":
        ti = tarfile.TarInfo(["evil", "meta/other", "contentx/a", "../x"][m[1] % 4]); ti.size = 1
        dst.addfile(ti, io.BytesIO(b"!"))
    if k == "extra-content":
        ti = tarfile.TarInfo("content/zz-extra"); ti.size = 1
        dst.addfile(ti, io.BytesIO(b"!"))
    dst.close()
    if k == "plain-tar":
        return out.getvalue()
    return gzip.compress(out.getvalue(), 6)

def accept_api(base, data, n):
    """the builder's acceptance steps on an artifact: (accepted?, tree canon, audit json)"""
    archive, audit, utils, BuildError, BobError = _bob()
    arch = os.path.join(base, "arch%d" % n)
    ap = artifact_path(arch)
    os.makedirs(os.path.dirname(ap))
    with open(ap, "wb") as f:
        f.write(data)
    dst = os.path.join(base, "dl%d" % n, "workspace"); a2 = os.path.join(base, "dl%d" % n, "audit.json.gz")
    os.makedirs(os.path.dirname(dst))
    try:
        with silence():
            ok = local_archive(arch)._downloadPackage(BID, archive.ARTIFACT_SUFFIX, a2, dst, [], dst)
        if not ok[0]:
            return ("rejected", "not found: %r" % (ok,), None, None)
        if not os.path.exists(a2):
            return ("rejected", "no audit", None, None)
        h = utils.hashDirectory(dst)
        au = audit.Audit.fromFile(a2)
        if au.getArtifact().getResultHash() != h:
            return ("rejected", "hash mismatch", None, None)
        with gzip.open(a2, "rb") as g:
            aj = json.load(g)
        return ("accepted", "", treecanon.canon(dst, ignore=False), aj)
    except BobError as e:
        return ("rejected", str(e)[:200], None, None)
    except Exception as e:
        # an internal exception aborts the build (exit status 3): ugly, but the artifact is not used
        return ("crashed", "%s: %s" % (type(e).__name__, str(e)[:200]), None, None)

def check_corrupt(ctx, case):
    archive, audit, utils, BuildError, BobError = _bob()
    base = ctx.tmpdir()
    try:
        src = os.path.join(base, "src", "workspace")
        os.makedirs(os.path.dirname(src))
        build_tree(src, case["ops"])
        a1 = os.path.join(base, "src", "audit.json.gz")
        make_audit(a1, src)
        arch = os.path.join(base, "arch")
        with silence():
            local_archive(arch)._uploadPackage(BID, archive.ARTIFACT_SUFFIX, a1, src)
        data = open(artifact_path(arch), "rb").read()
        c1 = treecanon.canon(src, ignore=False)
        with gzip.open(a1, "rb") as g:
            aj1 = json.load(g)
        # audit of another (different) artifact
        other = os.path.join(base, "other"); os.makedirs(other)
        with open(os.path.join(other, "different"), "w") as f: f.write("x")
        oa = os.path.join(base, "other.json.gz"); make_audit(oa, other)
        other_audit = open(oa, "rb").read()
        muts = case["mutations"]
        if case.get("all_truncations"):
            muts = [["trunc", i] for i in range(1, len(data))] + muts
        for n, m in enumerate(muts):
            try:
                md = mutate(data, m, other_audit)
            except Exception as e:
                ctx.label("corrupt:mutator-n/a")
                continue
            if md == data:
                continue
            res = accept_api(base, md, n)
            gz_ok = md[:2] == b"\x1f\x8b"
            ctx.record(jhash([case["ops"], m]), gz_ok and m[0] in ("flip", "trunc", "content-change", "otheraudit", "vsn", "noaudit", "rename-member", "mode-change", "extra-content", "unknown-entry", "novsn"),
                       ["corrupt:%s:%s" % (m[0], res[0])], {"layer": "corrupt", "mutation": m[:2], "outcome": res[:2]} if n < 2 else None)
            if res[0] == "accepted" and (res[2] != c1 or res[3] != aj1):
                what = "tree %r" % treecanon.diff(c1, res[2]) if res[2] != c1 else "audit differs"
                ctx.fail("corrupt:accepted-and-different:" + m[0], "mutation %r was accepted but %s" % (m, what),
                         {"layer": "corrupt", "ops": case["ops"], "mutations": [m]})
            shutil.rmtree(os.path.join(base, "dl%d" % n), ignore_errors=True)
            shutil.rmtree(os.path.join(base, "arch%d" % n), ignore_errors=True)
    finally:
        vlib.rmtree(base)

# --------------------------------------------------------------------------------------- (3)
MNAMES = ["content/a", "content/b", "content/sub/c", "content/sub", "content/../x", "content/../../outside/victim.txt",
          "/abs", "/%OUT%/victim.txt", "content//%OUT%/victim.txt", "content/sub/../../../outside/victim.txt",
          "meta/../x", "meta/../../outside/victim.txt", "content/lnk", "content/lnk/victim.txt", "content/lnk/new.txt",
          "content", "meta", "meta/audit.json.gz", "content/./a", "content/a/../../../outside/dir/inner.txt",
          "content/dl", "content/dl/inner.txt", "../outside/victim.txt", "content/../audit.json.gz", "content/h"]
LTARGETS = ["../../outside", "%OUT%", "../../outside/victim.txt", "%OUT%/victim.txt", "a", "../..", "/", "sub/../../../outside/dir",
            "content/../../outside/victim.txt", "content/a", "content/lnk/victim.txt", "content/dl/inner.txt", "content/../../outside/dir/inner.txt",
            "content/sub/../../../outside/victim.txt", "../outside/victim.txt", "content/../audit.json.gz"]
MTYPES = ["reg", "reg", "dir", "sym", "lnk", "chr", "fifo", "blk"]

def build_hostile(members, outside, vsn="1"):
    out = io.BytesIO()
    pax = {"bob-archive-vsn": vsn} if vsn is not None else {}
    tf = tarfile.open(fileobj=out, mode="w", format=tarfile.PAX_FORMAT, pax_headers=pax)
    desc = []
    prev = None
    for (ni, ty, li, seed) in members:
        if ni < 0 and prev is not None:
            name = prev                                  # same name again: overwrite / type flip
        else:
            name = MNAMES[abs(ni) % len(MNAMES)].replace("%OUT%", outside)
        prev = name
        t = MTYPES[ty % len(MTYPES)]
        ti = tarfile.TarInfo(name)
        ti.mode = 0o644
        payload = None
        link = LTARGETS[li % len(LTARGETS)].replace("%OUT%", outside)
        if t == "reg":
            payload = b"EVIL%d" % seed; ti.size = len(payload)
        elif t == "dir":
            ti.type = tarfile.DIRTYPE; ti.mode = 0o755
        elif t == "sym":
            ti.type = tarfile.SYMTYPE; ti.linkname = link
        elif t == "lnk":
            ti.type = tarfile.LNKTYPE; ti.linkname = link
        elif t == "chr":
            ti.type = tarfile.CHRTYPE; ti.devmajor, ti.devminor = 1, 3
        elif t == "blk":
            ti.type = tarfile.BLKTYPE; ti.devmajor, ti.devminor = 259, 999
        elif t == "fifo":
            ti.type = tarfile.FIFOTYPE
        tf.addfile(ti, io.BytesIO(payload) if payload is not None else None)
        desc.append((name, t, link if t in ("sym", "lnk") else ""))
    tf.close()
    return gzip.compress(out.getvalue(), 1), desc

def resolves_outside(desc):
    for name, t, link in desc:
        if ".." in name.split("/") or name.startswith("/") or "outside" in name or "lnk/" in name or "dl/" in name:
            return True
        if t in ("sym", "lnk") and (".." in link.split("/") or link.startswith("/")):
            return True
    return False

def check_confine(ctx, case):
    archive, audit, utils, BuildError, BobError = _bob()
    base = ctx.tmpdir()
    try:
        outside = os.path.join(base, "jail", "outside")
        os.makedirs(os.path.join(outside, "dir"))
        os.makedirs(os.path.join(base, "jail", "empty-sibling"))
        for rel, txt in (("victim.txt", "precious"), ("dir/inner.txt", "inner"), ("../x-canary", "c")):
            with open(os.path.join(outside, rel), "w") as f:
                f.write(txt)
        ws = os.path.join(base, "jail", "proj", "workspace")
        au = os.path.join(base, "jail", "proj", "audit.json.gz")
        os.makedirs(os.path.dirname(ws))
        if case.get("preexisting"):
            os.makedirs(ws)
            os.symlink(outside, os.path.join(ws, "dl"))      # stale workspace content is removed first
        data, desc = build_hostile(case["members"], outside, case.get("vsn", "1"))
        arch = os.path.join(base, "arch")
        ap = artifact_path(arch)
        os.makedirs(os.path.dirname(ap))
        with open(ap, "wb") as f:
            f.write(data)
        def outside_view():
            c = treecanon.canon(os.path.join(base, "jail"), content_hash=False, ignore=False, with_root_mode=True)
            pw, pa = b"proj/workspace", b"proj/audit.json.gz"
            return [e for e in c if not (e[0] == pw or e[0].startswith(pw + b"/") or e[0] == pa or e[0] == pa + b".pickle")]
        before = outside_view()
        outcome = "accepted"
        import signal
        def on_alarm(sig, frm):
            raise TimeoutError("extraction blocks (e.g. writing into a fifo member)")
        signal.signal(signal.SIGALRM, on_alarm)
        signal.alarm(2)
        try:
            with silence():
                ok = local_archive(arch)._downloadPackage(BID, archive.ARTIFACT_SUFFIX, au, ws, [], ws)
            if not ok[0]: outcome = "notfound"
        except BobError as e:
            outcome = "rejected"
        except TimeoutError:
            outcome = "blocked"          # a denial of service, not a confinement breach: counted only
        except Exception as e:
            outcome = "exc:" + type(e).__name__
        finally:
            signal.alarm(0)
        after = outside_view()
        ctx.record(jhash(case), resolves_outside(desc), ["confine:" + outcome] + ["confine:type:" + d[1] for d in desc],
                   {"layer": "confine", "members": desc[:6], "outcome": outcome})
        if before != after:
            via = "hardlink" if any(d[1] == "lnk" for d in desc) else "symlink" if any(d[1] == "sym" for d in desc) else "name"
            ctx.fail("confine:escaped:" + via,
                     "extraction (%s) changed something outside workspace/audit: %r; members=%r" %
                     (outcome, treecanon.diff(before, after), desc), dict(case, layer="confine"))
    finally:
        vlib.rmtree(base)

# --------------------------------------------------------------------------------------- (2b) end to end
def e2e_project(d, archdir, events):
    os.makedirs(os.path.join(d, "recipes"))
    with open(os.path.join(d, "config.yaml"), "w") as f:
        f.write('bobMinimumVersion: "1.0"\n')
    with open(os.path.join(d, "default.yaml"), "w") as f:
        f.write("archive:\n  backend: file\n  path: %s\n" % archdir)
    with open(os.path.join(d, "recipes", "root.yaml"), "w") as f:
        f.write("root: True\nbuildScript: |\n  echo hello > a.txt\n  mkdir -p sub && echo w > sub/b.txt\n  ln -sf a.txt l\n"
                "packageScript: |\n  cp -a $1/* .\n  echo ran >> %s\n" % events)

def check_e2e(ctx, case):
    base = ctx.tmpdir()
    try:
        arch = os.path.join(base, "arch")
        p1 = os.path.join(base, "p1")
        events = os.path.join(base, "events")
        e2e_project(p1, arch, events)
        r = bobproc.direct(p1, ["dev", "root", "--upload"])
        if r.rc != 0:
            raise RuntimeError("e2e set-up build failed: %s %s" % (r.out[-500:], r.err[-500:]))
        tgz = [os.path.join(dp, f) for dp, _, fs in os.walk(arch) for f in fs if f.endswith("-1.tgz")]
        assert len(tgz) == 1, tgz
        data = open(tgz[0], "rb").read()
        dist = os.path.join(p1, "dev/dist/root/1/workspace")
        c1 = treecanon.canon(dist, ignore=False)
        for n, m in enumerate(case["mutations"]):
            try:
                md = mutate(data, m, None)
            except Exception:
                continue
            if md == data:
                continue
            with open(tgz[0], "wb") as f:
                f.write(md)
            p2 = os.path.join(base, "p2-%d" % n)
            e2e_project(p2, arch, events)
            ev0 = open(events).read()
            r = bobproc.direct(p2, ["dev", "root", "--download=forced"])
            ev1 = open(events).read()
            d2 = os.path.join(p2, "dev/dist/root/1/workspace")
            ctx.record(jhash(["e2e", m]), md[:2] == b"\x1f\x8b", ["e2e:%s:rc%d" % (m[0], min(r.rc, 1))],
                       {"layer": "e2e", "mutation": m[:2], "rc": r.rc} if n < 2 else None)
            if r.rc == 0:
                c2 = treecanon.canon(d2, ignore=False) if os.path.isdir(d2) else None
                if c2 != c1:
                    ctx.fail("e2e:accepted-and-different:" + m[0], "bob dev --download=forced succeeded on mutated artifact %r "
                             "but the result differs: %r" % (m, treecanon.diff(c1, c2 or [])), {"layer": "e2e", "mutations": [m]})
            if r.rc not in (0, 1):
                ctx.label("e2e:internal-rc%d" % r.rc)
            if r.rc != 0:
                # a rejected artifact must stay rejected when the user simply tries again
                r2 = bobproc.direct(p2, ["dev", "root", "--download=forced"])
                if r2.rc == 0:
                    c2 = treecanon.canon(d2, ignore=False) if os.path.isdir(d2) else None
                    if c2 != c1:
                        ctx.fail("e2e:accepted-on-retry:" + m[0], "mutated artifact %r was rejected by the first "
                                 "`bob dev --download=forced` but the second run in the same workspace succeeded with a "
                                 "different result: %r" % (m, treecanon.diff(c1, c2 or [])), {"layer": "e2e", "mutations": [m]})
            shutil.rmtree(p2, ignore_errors=True)
    finally:
        vlib.rmtree(base)

# ---------------------------------------------------------------------------------------
I = st.integers(0, 60)
tree_ops = st.lists(st.one_of(
    st.tuples(st.just("mkfile"), I, I, I, I, I), st.tuples(st.just("mkfile"), I, I, I, I, I),
    st.tuples(st.just("mkdir"), I, I, I), st.tuples(st.just("mkdir"), I, I, I),
    st.tuples(st.just("symlink"), I, I, I), st.tuples(st.just("hardlink"), I, I, I),
    st.tuples(st.just("chmod"), I, I), st.tuples(st.just("fifo"), I, I)).map(list), min_size=0, max_size=14)
small_ops = st.lists(st.one_of(
    st.tuples(st.just("mkfile"), I, I, st.integers(0, 3), I, I), st.tuples(st.just("mkdir"), I, I, I),
    st.tuples(st.just("symlink"), I, I, I), st.tuples(st.just("hardlink"), I, I, I)).map(list), min_size=1, max_size=6)
P = st.integers(0, 10**6)
mut_st = st.one_of(
    st.tuples(st.just("trunc"), P), st.tuples(st.just("trunc"), P),
    st.tuples(st.just("flip"), st.lists(st.tuples(P, st.integers(0, 7)).map(list), min_size=1, max_size=3)),
    st.tuples(st.just("flip"), st.lists(st.tuples(P, st.integers(0, 7)).map(list), min_size=1, max_size=1)),
    st.tuples(st.just("magic")), st.tuples(st.just("plain-tar")), st.tuples(st.just("garbage-gz"), P), st.tuples(st.just("zero")),
    st.tuples(st.just("vsn"), P), st.tuples(st.just("novsn")), st.tuples(st.just("noaudit")), st.tuples(st.just("otheraudit")),
    st.tuples(st.just("content-change"), P, P), st.tuples(st.just("rename-member"), P), st.tuples(st.just("mode-change"), P),
    st.tuples(st.just("unknown-entry"), P), st.tuples(st.just("extra-content"))).map(list)
member_st = st.tuples(st.one_of(I, I, st.just(-1)), st.integers(0, 7), I, st.integers(0, 9)).map(list)

rt_case = st.fixed_dictionaries({"ops": tree_ops})
def corrupt_case(thorough):
    return st.fixed_dictionaries({"ops": small_ops, "mutations": st.lists(mut_st, min_size=4, max_size=12),
                                  "all_truncations": st.booleans() if thorough else st.just(False)})
confine_case = st.fixed_dictionaries({"members": st.lists(member_st, min_size=1, max_size=5),
                                      "preexisting": st.booleans(), "vsn": st.sampled_from(["1", "1", "1", "0", None])})
e2e_case = st.fixed_dictionaries({"mutations": st.lists(mut_st, min_size=3, max_size=6)})

LAYERS = {"roundtrip": check_roundtrip, "corrupt": check_corrupt, "confine": check_confine, "e2e": check_e2e}

def shard(ctx):
    bobproc.warm()
    run_hypothesis(ctx, confine_case, lambda c: check_confine(ctx, c), ctx.n(6000, 80000), salt="confine")
    run_hypothesis(ctx, rt_case, lambda c: check_roundtrip(ctx, c), ctx.n(8000, 60000), salt="rt")
    run_hypothesis(ctx, corrupt_case(not ctx.quick()), lambda c: check_corrupt(ctx, c), ctx.n(2400, 16000), salt="corrupt")
    run_hypothesis(ctx, e2e_case, lambda c: check_e2e(ctx, c), ctx.n(640, 6000), salt="e2e", shrink=False)

def replay(ctx, case):
    case = dict(case)
    case.setdefault("ops", [])
    LAYERS[case["layer"]](ctx, case)

FINDINGS = {}
