"""C15 - Shared package store is safe under concurrent projects.

Layer L1 drives ONE `bob.share.LocalShare` store from 2-4 logical projects.  Every project owns a
real `bob.builder.LocalBuilder` (share handler = LocalShare behind a recording proxy, BobState
replaced by an in-memory stub, stub package steps), so that `_preparePackageStep`,
`_useSharedPackage` and `_installSharedPackage` - the code that creates/removes the workspace
links - are the code under test, and `gc` is called exactly as `bob clean --shared` does it.

Execution modes of the same generated history:
  seq   operations one after the other in this process; all accounting invariants after EVERY op;
        usage history from a logical clock (os.utime on pkg.json after each op that touched it)
  thr   one thread per project under an owned schedule: the wrapped primitives (fcntl.flock,
        os.rename/replace/link/symlink/unlink/mkdir-of-visible-dirs, shutil.rmtree, removePath, open
        of pkg.json / repo.json) report to the scheduler and block until granted; flock is done
        with LOCK_NB and the scheduler never grants a lock request that its lock table says would
        block; there is an extra scheduling point after every unlock.  flock locks belong to open
        file descriptions, so two threads that opened the file separately exclude each other
        exactly like two processes.  Only one worker runs at any time, so every grant is a moment
        at which the parent inspects the store ("what could another process see now").
  fork  the same protocol with one forked process per project talking over pipes (DESIGN 2.6).
        Used for a sample of schedules and to CONFIRM every thr-mode violation before it is
        reported (a fork of the harness costs 0.2-1 s on the loaded machine, a thread nothing).
  e2e   (L2) two real Bob projects with identical `shared: True` recipes and one store configured
        in default.yaml build concurrently as real `bob dev` processes (the package step waits, with
        bash builtins, until the other project builds the same package), then `rm -rf dev` of one
        project, `bob clean --shared [flags]`, optionally a rebuild; all exit 0, store invariants
        (1) and (4), links of the surviving project still resolve after a non-forced clean.

Deviations from DESIGN.md 3/C15: threads instead of processes for the bulk of the schedules (same
replayable schedule value in both transports); L1 scratch directories live on /dev/shm when it
exists (rmdir on the ext4 scratch disk is serialised machine wide: 14 ms with 16 shards; set
VERIF_C15_DISK=1 to use the disk); L2 has 2 projects, does not compare against a local clean
build (the content is a constant file) and runs only a handful of cases per shard.
"""
import os, sys, json, stat, errno, hashlib, threading, queue, pickle, struct, select, signal
import traceback, collections, fcntl, shutil, gzip, time
from hypothesis import strategies as st

import vlib
from vlib import treecanon
from vlib.runner import run_hypothesis, Violation, HarnessError, jhash

PROP = "C15"
LEVEL = "exploration"
RULE = ("Generated histories (4-14 ops) of prep (= real LocalBuilder._preparePackageStep + _useSharedPackage on a "
        "project workspace slot), fin (build the generated package tree in the slot, then real "
        "_installSharedPackage), unuse (project drops the slot), gc(pruneUsed, pruneUnused, dryRun) as `bob clean "
        "--shared` calls it and sync barriers (single ops and short templates: need, race for one build-id, churn, "
        "usage history + gc, workspace switching to another package + forced gc), by 2-4 projects on one LocalShare store (quota none/tight/loose in "
        "eighths of the total package size, autoClean on/off, store directory missing or existing-but-empty at "
        "start, configured store path plain / itself a symlink / below a symlinked parent, per-project --[no-]shared/--[no-]install); build-id = hash of the package content, so projects race "
        "for the same build-id with identical content. Mode seq: ops in order, usage history from a logical clock "
        "(os.utime of pkg.json). Modes thr/fork: one worker per project, interleaved at flock / rename / symlink / "
        "unlink / rmtree / open granularity (plus a point after every unlock) by a generated schedule of "
        "(worker, run length) pairs; a request for a lock that is held is never granted. Oracle: visible package "
        "dirs complete + independently rehashed (hashDirectory and treecanon) == pkg.json.hash, <=1 successful "
        "install per build-id incarnation, no non-forced collection of a package whose user link resolved when gc "
        "took its lock, repo.json == {visible pkg: pkg.json.size}, gc/autoClean victim sets satisfy a validity "
        "predicate (unused only, never the new package, oldest usage first with ties free, each removal needed, "
        "stop when within quota), gc return value == remaining size, no operation raises. Non-trivial: an install "
        "lost the race for a build-id that another project installed after the loser's prep, or a gc ran while a "
        "project was between prep and install and after another project's successful use; distinct = hash of case. "
        "Every thr violation is re-run with forked worker processes before it is reported. Layer e2e: two real Bob "
        "projects (shared: True recipes, share configured in default.yaml) build concurrently as real processes with "
        "a rendezvous in the package step, then rm -rf dev of one project, bob clean --shared with generated flags, "
        "optional rebuild; exit status 0, store invariants, surviving links resolve after a non-forced clean.")
ASSUMPTIONS = ["the window between useSharedPackage/installSharedPackage returning and the builder creating its link "
               "is not 'in use' (counted as info_use_window / info_install_window)",
               "with pruneUsed (--used) only 'used packages go only while over quota' is demanded; the order used-vs-"
               "unused and the combination with --all-unused are outside the property (counted as info_*)",
               "a link that dangled and resolves again because the build-id was re-installed is not a user "
               "(info_stale_link_revived); the same when the package was collected and re-installed by somebody else "
               "between the share API call and the link creation (info_window_reincarnated)",
               "used/unused status of a package whose link appeared or vanished while a gc held its lock is taken as "
               "whatever the gc decided (gc-judgement-relaxed-link-changed-during-gc)",
               "L1 scratch on tmpfs (/dev/shm): same flock/rename/link semantics, no journal contention"]
TIME_BUDGET = {"quick": 176, "thorough": 1500}
BATCH = 40

CLOCK_BASE = 1_500_000_000
NSLOTS = 2

# =========================================================================================
# worker context / wrapped primitives
_tls = threading.local()
_proc_wk = [None]          # fork mode: the worker context of this process

def cur():
    wk = getattr(_tls, "wk", None)
    return wk if wk is not None else _proc_wk[0]

class _Abort(BaseException):
    pass

class SelfDeadlock(Exception):
    pass

class WorkerCtx:
    """what the wrapped primitives talk to; subclasses implement the transport"""
    def __init__(self, wid):
        self.wid = wid
        self.nest = 0
        self.aborted = False
        self.project = None
    def point(self, kind, **info):          # may block until granted
        pass
    def event(self, kind, **info):          # synchronous notification
        pass
    def quiet(self):
        return self.nest > 0 or self.aborted

_real = {}
_installed = [False]

def _s(p):
    try:
        return os.fsdecode(p)
    except TypeError:
        return None

def _fdname(fd):
    n = getattr(fd, "name", None)
    if isinstance(n, (str, bytes)):
        return _s(n)
    try:
        return os.readlink("/proc/self/fd/%d" % (fd if isinstance(fd, int) else fd.fileno()))
    except OSError:
        return "?"

def _w_flock(fd, op):
    wk = cur()
    if wk is None or wk.quiet():
        return _real["flock"](fd, op)
    fno = fd if isinstance(fd, int) else fd.fileno()
    s = os.fstat(fno)
    key = "%d:%d" % (s.st_dev, s.st_ino)
    name = _fdname(fd)
    if op & fcntl.LOCK_UN:
        wk.point("unlock", path=name)
        r = _real["flock"](fd, op)
        wk.event("unlocked", key=key, path=name)
        wk.point("after-unlock", path=name)
        return r
    ex = bool(op & fcntl.LOCK_EX)
    n = 0
    while True:
        wk.point("lock", key=key, ex=ex, path=name)
        try:
            r = _real["flock"](fd, op | fcntl.LOCK_NB)
            break
        except OSError as e:
            if e.errno not in (errno.EWOULDBLOCK, errno.EAGAIN):
                raise
            n += 1
            wk.event("lock-busy", key=key, ex=ex, path=name, n=n)
            if n > 40:
                raise SelfDeadlock("flock(%s, ex=%s) never becomes available" % (name, ex))
    wk.event("locked", key=key, ex=ex, path=name)
    return r

def _mk2(name):
    def w(src, dst, *a, **kw):
        wk = cur()
        s, d = _s(src), _s(dst)
        if wk is None or wk.quiet() or s is None or d is None or kw.get("src_dir_fd") or kw.get("dir_fd"):
            return _real[name](src, dst, *a, **kw)
        wk.point(name, src=s, dst=d)
        if name == "rename":
            wk.event("pre-rename", src=s, dst=d)
        try:
            r = _real[name](src, dst, *a, **kw)
        except OSError as e:
            wk.event(name, src=s, dst=d, err=e.errno)
            raise
        wk.event(name, src=s, dst=d, err=None)
        return r
    return w

def _w_unlink(path, *a, **kw):
    wk = cur()
    p = _s(path)
    if wk is None or wk.quiet() or p is None or kw.get("dir_fd") is not None:
        return _real["unlink"](path, *a, **kw)
    wk.point("unlink", path=p)
    try:
        r = _real["unlink"](path, *a, **kw)
    except OSError as e:
        wk.event("unlink", path=p, err=e.errno)
        raise
    wk.event("unlink", path=p, err=None)
    return r

def _w_mkdir(path, *a, **kw):
    wk = cur()
    p = _s(path)
    if wk is not None and not wk.quiet() and p is not None and kw.get("dir_fd") is None and wk.project is not None:
        store = wk.project.world.store
        if p.startswith(store + "/") and "/tmp" not in p[len(store):]:
            wk.point("mkdir", path=p)
    return _real["mkdir"](path, *a, **kw)

def _mk_coarse(name, evname):
    def w(path, *a, **kw):
        wk = cur()
        p = _s(path)
        if wk is None or wk.quiet() or p is None:
            return _real[name](path, *a, **kw)
        wk.point(evname, path=p)
        wk.nest += 1
        try:
            r = _real[name](path, *a, **kw)
        finally:
            wk.nest -= 1
        wk.event(evname, path=p, err=None)
        return r
    return w

def _w_open(path, mode="r", *a, **kw):
    wk = cur()
    p = _s(path) if isinstance(path, (str, bytes, os.PathLike)) else None
    if wk is not None and not wk.quiet() and p is not None and os.path.basename(p) in ("pkg.json", "repo.json"):
        wk.point("open", path=p, mode=mode)
    return _real["open"](path, mode, *a, **kw)

class _QuietAction:
    def __enter__(self): return self
    def __exit__(self, *a): return False
    def setResult(self, *a, **k): pass
    def setError(self, *a, **k): pass

class _QuietWarn:
    def __init__(self, tag): self.tag = tag
    def show(self, *a, **k):
        wk = cur()
        if wk is not None and not wk.aborted:
            wk.event("warn", tag=self.tag)
    warn = show

def _w_gc(self, pruneUsed, pruneUnused, dryRun=False, progress=lambda x: None, newPkg=None):
    wk = cur()
    if wk is None or wk.aborted:
        return _real["gc"](self, pruneUsed, pruneUnused, dryRun, progress, newPkg)
    wk.event("gc-enter", used=bool(pruneUsed), all=bool(pruneUnused), dry=bool(dryRun), newPkg=newPkg, quota=self.quota)
    try:
        r = _real["gc"](self, pruneUsed, pruneUnused, dryRun, progress, newPkg)
    except _Abort:
        raise
    except BaseException as e:
        wk.event("gc-exit", ret=None, exc="%s: %s" % (type(e).__name__, e))
        raise
    wk.event("gc-exit", ret=r, exc=None)
    return r

def install_wrappers():
    if _installed[0]:
        return
    import bob.share, bob.builder, builtins
    _real.update(flock=fcntl.flock, rename=os.rename, replace=os.replace, link=os.link, symlink=os.symlink,
                 unlink=os.unlink, mkdir=os.mkdir, rmtree=shutil.rmtree, removePath=bob.builder.removePath, open=builtins.open,
                 gc=bob.share.LocalShare.gc, BobState=bob.builder.BobState, stepMessage=bob.builder.stepMessage,
                 stepAction=bob.builder.stepAction, w1=bob.share.warnRepoSize, w2=bob.share.warnGcDidNotHelp,
                 w3=bob.share.warnEscapedHardLink)
    fcntl.flock = _w_flock
    os.rename = _mk2("rename"); os.replace = _mk2("replace"); os.link = _mk2("link"); os.symlink = _mk2("symlink")
    os.unlink = _w_unlink
    os.mkdir = _w_mkdir
    shutil.rmtree = _mk_coarse("rmtree", "rmtree")
    bob.builder.removePath = _mk_coarse("removePath", "removePath")
    bob.share.open = _w_open
    bob.share.LocalShare.gc = _w_gc
    bob.builder.BobState = lambda: cur().project.state
    bob.builder.stepMessage = lambda *a, **k: None
    bob.builder.stepAction = lambda *a, **k: _QuietAction()
    bob.share.warnRepoSize = _QuietWarn("over-quota-no-autoclean")
    bob.share.warnGcDidNotHelp = _QuietWarn("autoclean-did-not-help")
    bob.share.warnEscapedHardLink = _QuietWarn("escaped-hard-link")
    _installed[0] = True

def uninstall_wrappers():
    if not _installed[0]:
        return
    import bob.share, bob.builder
    fcntl.flock = _real["flock"]
    os.rename = _real["rename"]; os.replace = _real["replace"]; os.link = _real["link"]; os.symlink = _real["symlink"]
    os.unlink = _real["unlink"]
    os.mkdir = _real["mkdir"]
    shutil.rmtree = _real["rmtree"]
    bob.builder.removePath = _real["removePath"]
    del bob.share.open
    bob.share.LocalShare.gc = _real["gc"]
    bob.builder.BobState = _real["BobState"]
    bob.builder.stepMessage = _real["stepMessage"]; bob.builder.stepAction = _real["stepAction"]
    bob.share.warnRepoSize = _real["w1"]; bob.share.warnGcDidNotHelp = _real["w2"]; bob.share.warnEscapedHardLink = _real["w3"]
    _installed[0] = False

# =========================================================================================
# world: store, packages, projects
FMODES = [0o644, 0o755, 0o600, 0o444]
DMODES = [0o755, 0o700]

def render_tree(tree, root):
    """tree = sorted list of nodes ["f", name, fill, size, mode] | ["l", name, target] | ["h", name, srcname]
    | ["d", name, mode, [nodes]]"""
    os.makedirs(root, exist_ok=True)
    later = []
    for n in tree:
        p = os.path.join(root, n[1])
        if n[0] == "f":
            with open(p, "wb") as f:
                f.write(bytes([n[2] % 256]) * n[3])
            os.chmod(p, FMODES[n[4] % len(FMODES)])
        elif n[0] == "l":
            _real.get("symlink", os.symlink)(n[2], p)
        elif n[0] == "d":
            render_tree(n[3], p)
            os.chmod(p, DMODES[n[2] % len(DMODES)])
        elif n[0] == "h":
            later.append(n)
    for n in later:
        src = os.path.join(root, n[2])
        p = os.path.join(root, n[1])
        if os.path.isfile(src) and not os.path.islink(src):
            _real.get("link", os.link)(src, p)
        else:
            with open(p, "wb") as f:
                f.write(b"h")

def tree_size(root):
    """Bob's documented size measure, recomputed: st_size of every entry below root"""
    tot = 0
    for d, dirs, files in os.walk(root):
        for n in dirs + files:
            tot += os.lstat(os.path.join(d, n)).st_size
    return tot

class FakeState:
    """in-memory stand-in for bob.state.BobState (one per project)"""
    def __init__(self):
        self.inputs = {}; self.results = {}; self.dirs = {}; self.variants = {}; self.storage = {}
    def getInputHashes(self, p): return self.inputs.get(p)
    def setInputHashes(self, p, v): self.inputs[p] = v
    def delInputHashes(self, p): self.inputs.pop(p, None)
    def getResultHash(self, p): return self.results.get(p)
    def setResultHash(self, p, v): self.results[p] = v
    def getDirectoryState(self, p, isSrc): return self.dirs.get(p)
    def setVariantId(self, p, v): self.variants[p] = v
    def getVariantId(self, p): return self.variants.get(p)
    def setStoragePath(self, p, v): self.storage[p] = v
    def getStoragePath(self, p): return self.storage.get(p, p)
    def resetWorkspaceState(self, p, d):
        self.inputs.pop(p, None); self.results.pop(p, None); self.variants.pop(p, None); self.storage.pop(p, None)
        if d is None: self.dirs.pop(p, None)
        else: self.dirs[p] = d

class _StubPkg:
    def __init__(self, name): self.name = name
    def getName(self): return self.name
    def getStack(self): return [self.name]

class StubStep:
    def __init__(self, w, variant, name):
        self.w = w; self.v = variant; self.pkg = _StubPkg(name)
    def getWorkspacePath(self): return self.w
    def getVariantId(self): return self.v
    def isShared(self): return True
    def isValid(self): return True
    def getPackage(self): return self.pkg

class ShareSpy:
    """records the return values of the share API calls made by the builder"""
    def __init__(self, real):
        self.real = real
        self.log = []
    def useSharedPackage(self, workspace, buildId):
        r = self.real.useSharedPackage(workspace, buildId)
        self.log.append(("use", r))
        return r
    def installSharedPackage(self, workspace, buildId, sharedHash, mayMove):
        r = self.real.installSharedPackage(workspace, buildId, sharedHash, mayMove)
        self.log.append(("install", r))
        wk = cur()
        if wk is not None:
            wk.event("install-returned", installed=bool(r[1]), path=r[0])
        return r
    def canInstall(self): return self.real.canInstall()
    def remoteName(self, b): return self.real.remoteName(b)
    def contains(self, b): return self.real.contains(b)
    def gc(self, *a, **k): return self.real.gc(*a, **k)
    @property
    def quota(self): return self.real.quota

class Pkg:
    pass

class World:
    def __init__(self, base, case):
        from bob.utils import hashDirectory
        cfg = case["cfg"]
        self.base = base
        self.start = cfg.get("start", "empty")
        # the configured store path may contain a symbolic link component (/tmp -> /private/tmp, a "current" link to a
        # disk): 1 = the store directory itself is a link to the real directory, 2 = its parent is a link.  Bob and the
        # harness only ever use the configured path.
        via = cfg.get("store_via", 0)
        if via == 1 and self.start == "missing":
            via = 2                      # a dangling link as store path would be a configuration error
        self.store_via = via
        if via == 1:
            os.makedirs(os.path.join(base, "disk", "store.real"))
            os.symlink(os.path.join(base, "disk", "store.real"), os.path.join(base, "store"))
            self.store = os.path.join(base, "store")
        elif via == 2:
            os.makedirs(os.path.join(base, "disk", "mnt"))
            os.symlink(os.path.join(base, "disk", "mnt"), os.path.join(base, "mnt"))
            self.store = os.path.join(base, "mnt", "store")
        else:
            self.store = os.path.join(base, "store")
        if self.start == "empty" and via != 1:
            os.makedirs(self.store)
        # packages (deduplicated by content)
        self.pkgs = []
        seen = set()
        for tree in case["pkgs"]:
            key = json.dumps(tree, sort_keys=True)
            if key in seen:
                continue
            seen.add(key)
            p = Pkg()
            p.idx = len(self.pkgs)
            p.tree = tree
            p.bid = hashlib.sha1(b"C15-bid" + key.encode()).digest()
            p.hex = p.bid.hex()
            p.variant = hashlib.sha1(b"C15-var" + key.encode()).digest()
            p.ref = os.path.join(base, "ref", "p%d" % p.idx, "workspace")
            render_tree(tree, p.ref)
            p.canon = treecanon.canon(p.ref)
            p.hash = hashDirectory(p.ref)
            p.size = tree_size(p.ref)
            p.dir = os.path.join(self.store, p.hex[0:2], p.hex[2:4], p.hex[4:] + "-3")
            self.pkgs.append(p)
        self.byhex = {p.hex: p for p in self.pkgs}
        self.bydir = {p.dir: p for p in self.pkgs}
        total = sum(p.size for p in self.pkgs)
        q = cfg.get("quota")
        self.quota = None if q is None else max(1, total * q // 8)
        self.spec = {"path": self.store, "autoClean": bool(cfg.get("autoClean", True))}
        if self.quota is not None:
            self.spec["quota"] = self.quota if cfg.get("quota_form", 0) == 0 else str(self.quota)
        self.autoClean = self.spec["autoClean"]
        self.nproj = cfg["nproj"]
        modes = cfg.get("modes") or []
        self.projects = [Project(self, i, modes[i] if i < len(modes) else [True, True]) for i in range(self.nproj)]
        self.slots = {}
        for pr in self.projects:
            for k in range(NSLOTS):
                self.slots[pr.wpath(k)] = (pr.idx, k)

    def visible(self):
        """bid hex -> directory of everything that looks like an installed package"""
        out = {}
        try:
            l1 = os.listdir(self.store)
        except FileNotFoundError:
            return out
        for a in l1:
            if len(a) != 2: continue
            pa = os.path.join(self.store, a)
            if not os.path.isdir(pa): continue
            for b in os.listdir(pa):
                pb = os.path.join(pa, b)
                if not os.path.isdir(pb): continue
                for c in os.listdir(pb):
                    if c.endswith("-3"):
                        out[a + b + c[:-2]] = os.path.join(pb, c)
        return out

    def link_users(self, p):
        """slot workspaces (of any project) that are links resolving to package p right now"""
        out = []
        try:
            target = os.path.realpath(os.path.join(p.dir, "workspace"))
            if not os.path.isdir(target):
                return out
        except OSError:
            return out
        for w in self.slots:
            if os.path.islink(w) and os.path.realpath(w) == target:
                out.append(w)
        return out

class Project:
    def __init__(self, world, idx, mode):
        from bob.builder import LocalBuilder
        from bob.share import getShare
        self.world = world
        self.idx = idx
        self.root = os.path.join(world.base, "proj%d" % idx)
        os.makedirs(self.root)
        self.use, self.inst = bool(mode[0]), bool(mode[1])
        self.state = FakeState()
        self.spy = ShareSpy(getShare(dict(world.spec)))
        self.builder = LocalBuilder(0, False, False, False, False, [], vlib.REPO, False, True)
        self.builder.setShareHandler(self.spy)
        self.builder.setShareMode(self.use, self.inst)
        self.want = {}      # slot -> pkg idx that has to be built (prep said: not shared)
        self.local = {}     # slot -> pkg idx built locally and still in the slot as a directory
        self.nbuild = 0

    def wpath(self, k):
        return os.path.join(self.root, "dev", "dist", "s%d" % k, "1", "workspace")

    def step(self, k, p):
        return StubStep(self.wpath(k), p.variant, "s%d" % k)

    # -- operations; each returns a JSON-able result dict -----------------------------------
    def run(self, op, wk):
        wk.project = self
        kind = op[0]
        res = {"kind": kind, "proj": self.idx, "exc": None}
        try:
            if kind == "prep":
                self.op_prep(op, wk, res)
            elif kind == "fin":
                self.op_fin(op, wk, res)
            elif kind == "unuse":
                self.op_unuse(op, wk, res)
            elif kind == "gc":
                self.op_gc(op, wk, res)
            else:
                raise AssertionError(kind)
        except (_Abort, HarnessError, AssertionError):
            raise
        except BaseException as e:
            from bob.errors import BuildError
            msg = getattr(e, "slogan", None) or str(e)
            res["exc"] = {"type": type(e).__name__, "msg": str(msg)[:300], "builderror": isinstance(e, BuildError),
                          "tb": "".join(traceback.format_tb(e.__traceback__)[-3:])[-700:]}
        return res

    def op_prep(self, op, wk, res):
        k = op[2] % NSLOTS
        p = self.world.pkgs[op[3] % len(self.world.pkgs)]
        w = self.wpath(k)
        res.update(slot=k, W=w, pkg=p.idx, bid=p.hex, shared=False)
        step = self.step(k, p)
        self.want.pop(k, None)
        n0 = len(self.spy.log)
        self.builder._preparePackageStep(step)
        shared, audit = self.builder._useSharedPackage(step, p.bid)
        res["shared"] = bool(shared)
        res["api"] = [(t, r[0] is not None) for t, r in self.spy.log[n0:]]
        if shared:
            self.local.pop(k, None)
            h = self.state.getResultHash(w)
            res["use_hash"] = h.hex() if isinstance(h, bytes) else None
        else:
            # same package already built locally in this slot (and not wiped by the builder): nothing to do
            if self.local.get(k) == p.idx and os.path.isdir(w) and not os.path.islink(w) \
                    and self.state.getInputHashes(w) is not None:
                res["uptodate"] = True
            else:
                self.local.pop(k, None)
                self.want[k] = p.idx

    def op_fin(self, op, wk, res):
        pend = sorted(self.want)
        if not pend:
            res["noop"] = True
            return
        k = pend[op[2] % len(pend)]
        p = self.world.pkgs[self.want.pop(k)]
        w = self.wpath(k)
        res.update(slot=k, W=w, pkg=p.idx, bid=p.hex, installed=None)
        # what _cookPackageStep does: a clean workspace, run the script, audit trail, hash, state
        wk.nest += 1
        try:
            if os.path.islink(w) or os.path.isfile(w):
                os.unlink(w)
            elif os.path.isdir(w):
                shutil.rmtree(w)
            render_tree(p.tree, w)
            self.nbuild += 1
            ap = os.path.join(os.path.dirname(w), "audit.json.gz")
            if os.path.lexists(ap):          # Bob writes the audit trail to a temporary file and renames it over a stale link
                os.unlink(ap)
            with open(ap, "wb") as f:
                f.write(gzip.compress(json.dumps({"proj": self.idx, "pkg": p.idx, "n": self.nbuild}).encode(), mtime=0))
            from bob.utils import hashDirectory
            cache = os.path.join(os.path.dirname(w), "cache.bin")
            h = hashDirectory(w, cache) if (self.idx + self.nbuild) % 2 else hashDirectory(w)
        finally:
            wk.nest -= 1
        self.state.setResultHash(w, h)
        self.state.setInputHashes(w, [p.bid])
        if len(op) > 3 and op[3] == 1:
            # something changes the workspace after Bob hashed it (a stray process, an incompatible file system)
            res["tampered"] = True
            with _real["open"](os.path.join(w, "zz-tampered"), "w") as f:
                f.write("x")
        wk.point("built", W=w)
        n0 = len(self.spy.log)
        step = self.step(k, p)
        self.builder._installSharedPackage(step, p.bid)
        calls = [c for c in self.spy.log[n0:] if c[0] == "install"]
        if calls:
            res["installed"] = bool(calls[-1][1][1])
            res["install_path"] = calls[-1][1][0]
        if os.path.isdir(w) and not os.path.islink(w):
            self.local[k] = p.idx

    def op_unuse(self, op, wk, res):
        k = op[2] % NSLOTS
        w = self.wpath(k)
        res.update(slot=k, W=w)
        wk.nest += 1
        try:
            for path in (w, os.path.join(os.path.dirname(w), "audit.json.gz"), os.path.join(os.path.dirname(w), "cache.bin")):
                if os.path.islink(path) or os.path.isfile(path):
                    os.unlink(path)
                elif os.path.isdir(path):
                    shutil.rmtree(path)
        finally:
            wk.nest -= 1
        wk.event("slot-dropped", path=w)
        self.state.resetWorkspaceState(w, None)
        self.want.pop(k, None); self.local.pop(k, None)

    def op_gc(self, op, wk, res):
        # cmds/build/clean.py: share = getShare(recipes.getShareConfig()); share.gc(args.used, args.all_unused,
        #                      args.dry_run, lambda x: delPaths.append(x))
        from bob.share import getShare
        used, allu, dry = bool(op[2]), bool(op[3]), bool(op[4])
        res.update(used=used, all=allu, dry=dry, reported=[], ret=None)
        share = getShare(dict(self.world.spec))
        res["ret"] = share.gc(used, allu, dry, lambda x: res["reported"].append(x))

# =========================================================================================
# the oracle: consumes the totally ordered event stream and inspects the file system
SOFT = ("gc-raised-on-store-without-repo.json", "unregistered-user-package-collected:lost-install-race",
        "gc-raised-TypeError:used+all-unused-without-quota")

class Monitor:
    def __init__(self, world, mode):
        self.w = world
        self.mode = mode
        self.failure = None          # first hard failure (signature, detail)
        self.soft = []               # failures after which the case can go on (known-finding candidates)
        self.labels = set()
        self.nontrivial = False
        self.cur = {}                # wid -> {"i":, "op":}
        self.results = {}            # op index -> result
        self.locks = {}              # key -> {wid: ex}
        self.gcs = {}                # wid -> gc record while inside LocalShare.gc
        self.lastgc = {}             # wid -> finished gc record of the current op
        self.inc = collections.Counter()      # bid -> collections so far (incarnation number)
        self.true_installs = {}      # (bid, inc) -> op index
        self.commit_inc = {}         # wid -> incarnation at this op's successful install rename
        self.linkgen = collections.Counter()
        self.linkinfo = {}           # W -> {"gen", "op", "bid", "inc"}
        self.verified = set()
        self.clock = 0
        self.last_use = {}           # bid hex -> logical time of last use/install (seq mode ages)
        self.building = {}           # (proj, slot) -> {"bid", "gc", "gc_after_foreign_use"}
        self.shared_use_projs = set()
        self.evno = 0
        self.log = collections.deque(maxlen=60)
        self.stats = collections.Counter()
        self.norepo_at_enter = {}
        self.bad_read = {}
        self.api_inc = {}            # op index -> incarnation of the package in which the share API registered the workspace
        self.use_lock_evno = {}      # prep op index -> event number at which its useSharedPackage locked pkg.json
        self.api_installed = {}      # op index -> what installSharedPackage returned (known before the op is done)
        self.paused = {}             # conc modes: wid -> (point kind, info) of the workers that are paused right now

    # ---------------------------------------------------------------------------------
    def fail(self, sig, detail):
        detail = "%s  [mode %s; last events: %s]" % (detail, self.mode, " | ".join(list(self.log)[-14:]))
        if sig in SOFT:
            if all(s != sig for s, _ in self.soft):
                self.soft.append((sig, detail))
            return
        if self.failure is None:
            self.failure = (sig, detail)

    def short(self, path):
        if not isinstance(path, str):
            return repr(path)
        b = self.w.base
        p = path[len(b) + 1:] if path.startswith(b + "/") else path
        for pk in self.w.pkgs:
            tail = pk.dir[len(b) + 1:]
            if tail in p:
                p = p.replace(tail, "store/<p%d>" % pk.idx)
        return p

    def pkg_of(self, path):
        return self.w.bydir.get(path)

    # ---------------------------------------------------------------------------------
    def snap(self):
        """state of the store as a gc that takes its lock now will see it"""
        w = self.w
        repo = None
        try:
            with _real["open"](os.path.join(w.store, "repo.json")) as f:
                repo = json.load(f)
        except FileNotFoundError:
            repo = None
        except ValueError:
            repo = "corrupt"
        pk = {}
        listed = repo.get("pkgs", {}) if isinstance(repo, dict) else {}
        for p in w.pkgs:
            pj = os.path.join(p.dir, "pkg.json")
            ent = {"listed": p.hex in listed, "rsize": listed.get(p.hex), "ok": False}
            try:
                s = os.stat(pj)
                with _real["open"](pj) as f:
                    meta = json.load(f)
                ent.update(ok=True, mtime=s.st_mtime_ns, users=list(meta.get("users", [])), psize=meta.get("size"),
                           hash=meta.get("hash"))
            except FileNotFoundError:
                ent["missing"] = True
            except ValueError:
                ent["corrupt"] = True
            lu = w.link_users(p) if ent["ok"] else []
            ent["link_users"] = {x: self.linkgen[x] for x in lu}
            ent["bob_used"] = any(u in lu for u in ent.get("users", []))
            for u in ent.get("users", []):
                if os.path.islink(u) and u not in lu:
                    self.labels.add("stale-user-entry-dangles" if not os.path.exists(u) else "stale-user-entry-points-elsewhere")
            ent["age"] = self.last_use.get(p.hex, 0) if self.mode == "seq" else ent.get("mtime", 0)
            pk[p.hex] = ent
        total = sum(v for v in listed.values()) if isinstance(repo, dict) else 0
        return {"repo": repo, "pk": pk, "total": total}

    # ---------------------------------------------------------------------------------
    def on_event(self, wid, kind, info):
        self.evno += 1
        if kind in ("rename", "symlink", "unlink", "removePath", "slot-dropped", "gc-enter", "gc-exit", "locked", "unlocked",
                    "op-start", "op-done"):
            self.log.append("w%d:%s" % (wid, self.describe(kind, info)))
        h = getattr(self, "ev_" + kind.replace("-", "_"), None)
        if h is not None:
            h(wid, info)

    def describe(self, kind, info):
        if kind in ("rename", "symlink"):
            return "%s(%s -> %s)%s" % (kind, self.short(info["src"]), self.short(info["dst"]),
                                       "" if info.get("err") is None else "=errno%d" % info["err"])
        if kind in ("locked", "unlocked"):
            return "%s(%s%s)" % (kind, self.short(info["path"]), (",EX" if info.get("ex") else ",SH") if kind == "locked" else "")
        if kind == "op-start":
            return "START#%d%r" % (info["i"], info["op"])
        if kind == "op-done":
            r = info["res"]
            return "DONE#%d(%s)" % (info["i"], ",".join("%s=%s" % (k, r[k]) for k in ("shared", "installed", "ret", "noop") if k in r)
                                    + (",RAISED " + r["exc"]["type"] if r.get("exc") else ""))
        if kind == "gc-enter":
            return "gc-enter(used=%s,all=%s,dry=%s,new=%s)" % (info["used"], info["all"], info["dry"], self.short(info["newPkg"]) if info["newPkg"] else None)
        if kind == "gc-exit":
            return "gc-exit(%s)" % (info["ret"] if info["exc"] is None else info["exc"][:60])
        return "%s(%s)" % (kind, self.short(info.get("path")))

    def ev_op_start(self, wid, info):
        self.cur[wid] = {"i": info["i"], "op": info["op"]}
        self.commit_inc.pop(wid, None)
        self.lastgc.pop(wid, None)

    def ev_locked(self, wid, info):
        self.locks.setdefault(info["key"], {})[wid] = info["ex"]
        if self.mode != "seq" and os.path.basename(info["path"]) in ("pkg.json", "repo.json"):
            # what will the new lock holder read?  (root-cause bucket of a later "corrupt meta data" failure)
            try:
                with _real["open"](info["path"]) as f:
                    json.load(f)
                self.bad_read.pop(wid, None)
            except ValueError:
                cause = None
                for x, m in self.paused.items():
                    if x == wid: continue
                    if m[0] == "after-unlock" and m[1]["path"] == info["path"]:
                        cause = ("unflushed", x, info["path"])
                    elif m[0] == "lock" and m[1]["ex"] and m[1]["path"] == info["path"] and os.path.basename(info["path"]) == "repo.json" \
                            and (self.cur.get(x) or {}).get("op", [""])[0] == "fin" and os.path.getsize(info["path"]) == 0 and cause is None:
                        cause = ("creation", x, info["path"])
                if cause:
                    self.bad_read[wid] = cause
            except OSError:
                pass
        if info["ex"] and os.path.basename(info["path"]) == "pkg.json" and (self.cur.get(wid) or {}).get("op", [""])[0] in ("prep", "fin"):
            self.use_lock_evno[self.cur[wid]["i"]] = self.evno
            pp = self.pkg_of(os.path.dirname(info["path"]))
            if pp is not None:
                self.api_inc[self.cur[wid]["i"]] = self.inc[pp.hex]
        if os.path.basename(info["path"]) == "repo.json" and wid in self.gcs and self.gcs[wid]["snap"] is None:
            self.gcs[wid]["snap"] = self.snap()
            self.gcs[wid]["evno"] = self.evno
            for (pr, sl), b in self.building.items():
                if pr != wid:
                    b["gc"] = True
                    if self.shared_use_projs - {pr}:
                        b["gc_after_foreign_use"] = True

    def ev_unlocked(self, wid, info):
        d = self.locks.get(info["key"])
        if d is not None:
            d.pop(wid, None)
            if not d:
                del self.locks[info["key"]]

    def ev_rename(self, wid, info):
        src, dst, err = info["src"], info["dst"], info["err"]
        p = self.pkg_of(dst)
        if p is not None:                                   # install commit
            if err is None:
                self.commit_inc[wid] = self.inc[p.hex]
                self.stats["install-commits"] += 1
            elif err in (errno.ENOTEMPTY, errno.EEXIST):
                self.labels.add("install-lost-at-final-rename")
            return
        p = self.pkg_of(src)
        if p is not None and err is None:                   # collection
            rec = self.gcs.get(wid)
            if rec is None:
                self.fail("package-removed-outside-gc", "w%d moved %s to %s outside LocalShare.gc" % (wid, self.short(src), self.short(dst)))
                return
            rec["victims"].append({"bid": p.hex, "inc": self.inc[p.hex], "now_users": rec.pop("_pre_users", {}).get(p.hex, {}),
                                   "linkinfo": {x: dict(v) for x, v in self.linkinfo.items()}})
            self.inc[p.hex] += 1
            self.stats["collections"] += 1

    def ev_pre_rename(self, wid, info):
        """called when a rename is about to be executed (everything else is paused): who links to the victim now?"""
        p = self.pkg_of(info["src"])
        rec = self.gcs.get(wid)
        if p is not None and rec is not None:
            rec.setdefault("_pre_users", {})[p.hex] = {x: self.linkgen[x] for x in self.w.link_users(p)}

    def ev_symlink(self, wid, info):
        dst = info["dst"]
        if dst in self.w.slots and info["err"] is None:
            self.linkgen[dst] += 1
            tgt = os.path.dirname(info["src"])
            p = self.pkg_of(tgt)
            if p is not None:
                for rec in self.gcs.values():        # used/unused changes while a gc is between lock and scan
                    if rec["snap"] is not None: rec["touched"].add(p.hex)
            self.linkinfo[dst] = {"gen": self.linkgen[dst], "op": self.cur.get(wid, {}).get("i"), "bid": p.hex if p else None,
                                  "inc": self.inc[p.hex] if p else None, "target_exists": os.path.isdir(info["src"])}

    def _dropped(self, path):
        if path in self.w.slots:
            self.linkgen[path] += 1
            li = self.linkinfo.pop(path, None)
            if li and li.get("bid"):
                for rec in self.gcs.values():
                    if rec["snap"] is not None: rec["touched"].add(li["bid"])
    def ev_unlink(self, wid, info): self._dropped(info["path"])
    def ev_removePath(self, wid, info): self._dropped(info["path"])
    def ev_slot_dropped(self, wid, info): self._dropped(info["path"])

    def ev_install_returned(self, wid, info):
        i = self.cur.get(wid, {}).get("i")
        self.api_installed[i] = info["installed"]
        if info["installed"] and wid in self.commit_inc:
            self.api_inc[i] = self.commit_inc[wid]

    def ev_warn(self, wid, info):
        self.labels.add("warn:" + info["tag"])

    def ev_gc_enter(self, wid, info):
        self.norepo_at_enter[wid] = os.path.isdir(self.w.store) and not os.path.exists(os.path.join(self.w.store, "repo.json"))
        self.gcs[wid] = {"args": info, "snap": None, "victims": [], "touched": set(), "op": self.cur.get(wid, {}).get("i")}

    def ev_gc_exit(self, wid, info):
        rec = self.gcs.pop(wid, None)
        if rec is None:
            return
        rec["ret"], rec["exc"] = info["ret"], info["exc"]
        self.lastgc[wid] = rec
        a = rec["args"]
        if a["newPkg"] is not None:
            self.labels.add("autoclean-ran")
            if rec["victims"]: self.labels.add("autoclean-removed-something")
        if rec["exc"] is None and rec["snap"] is not None and not a["dry"]:
            self.judge_gc(wid, rec, [v["bid"] for v in rec["victims"]])

    # ---------------------------------------------------------------------------------
    def judge_gc(self, wid, rec, victims):
        """validity predicate for the victim list of one gc (explicit or automatic)"""
        a, snap = rec["args"], rec["snap"]
        used, allu, dry, quota = a["used"], a["all"], a["dry"], a["quota"]
        new = self.pkg_of(a["newPkg"]).hex if a["newPkg"] and self.pkg_of(a["newPkg"]) else None
        what = "gc(pruneUsed=%s, pruneUnused=%s, dryRun=%s%s) of op #%s, quota %s" % (
            used, allu, dry, ", newPkg=p%d" % self.w.byhex[new].idx if new else "", rec["op"], quota)
        if snap["repo"] == "corrupt" or any(e.get("corrupt") for e in snap["pk"].values()):
            self.labels.add("gc-judgement-skipped-unreadable-snapshot")
            return
        pk = snap["pk"]
        name = lambda b: "p%d" % self.w.byhex[b].idx
        state = ", ".join("%s:size=%s,age=%s,%s%s" % (name(b), e["rsize"], e.get("age"), "used" if e["bob_used"] else "unused",
                          "" if set(e["link_users"]) <= set(e.get("users", [])) else "+unregistered-link")
                          for b, e in sorted(pk.items()) if e["listed"])
        where = "%s; store at lock time: {%s} total %d; victims in order: %r" % (what, state, snap["total"], [name(v) for v in victims])
        for v in victims:
            if v not in pk or not pk[v]["listed"]:
                self.fail("gc-victim-not-listed", where)
                return
        if len(set(victims)) != len(victims):
            self.fail("gc-victim-twice", where); return
        if new is not None and new in victims:
            self.fail("autoclean-removed-new-package", where); return
        unused = {b for b, e in pk.items() if e["listed"] and e["ok"] and not e["bob_used"] and b != new}
        # (3) non-forced collection of a package whose link resolved when gc looked and still does
        if not dry:
            for v in rec["victims"]:
                e = pk[v["bid"]]
                for W, gen in v["now_users"].items():
                    if e["link_users"].get(W) != gen:
                        li = v["linkinfo"].get(W) or {}
                        if self.use_lock_evno.get(li.get("op"), 0) > rec.get("evno", 0):
                            self.fail("use-overlapped-gc", "%s -> %s was registered (op #%s locked pkg.json) and linked while the gc "
                                      "held its repository lock, then the gc collected the package; %s" %
                                      (self.short(W), name(v["bid"]), li.get("op"), where))
                            return
                        self.labels.add("info_use_window")
                        continue
                    if used:
                        self.labels.add("forced-gc-took-used-package")
                        continue
                    li = v["linkinfo"].get(W) or {}
                    if li.get("inc") != v["inc"] or not li.get("target_exists", True):
                        self.labels.add("info_stale_link_revived")
                        continue
                    if self.api_inc.get(li.get("op"), li.get("inc")) != li.get("inc"):
                        # the package was collected and installed again by somebody else between the share API call of
                        # op li["op"] and the creation of its link: the (not "in use") window, with a later symptom
                        self.labels.add("info_window_reincarnated")
                        continue
                    who = "%s -> %s" % (self.short(W), name(v["bid"]))
                    if W in e.get("users", []):
                        self.fail("used-package-collected", "registered user link %s resolved when gc took its lock and at "
                                  "the collection; %s" % (who, where))
                        return
                    org = self.results.get(li.get("op")) or {}
                    if self.api_installed.get(li.get("op")) is False:
                        self.fail("unregistered-user-package-collected:lost-install-race",
                                  "%s was linked by _installSharedPackage of op #%s after installSharedPackage returned "
                                  "installed=False (somebody else was faster); the workspace is not in pkg.json users %r, so the "
                                  "non-forced gc collected the package and the link dangles; %s" % (who, li.get("op"), e.get("users"), where))
                    else:
                        self.fail("unregistered-user-package-collected", "%s (link made by op #%s %r) not in users %r; %s" %
                                  (who, li.get("op"), org.get("kind") or "in progress", e.get("users"), where))
                        return
        size = snap["total"]
        touched = rec.get("touched") or set()
        if touched:
            # a link to these packages appeared/vanished after gc took its lock: Bob may have seen either state
            self.labels.add("gc-judgement-relaxed-link-changed-during-gc")
            unused = (unused - touched) | (set(victims) & touched - {new})
        if not used:
            bad = [v for v in victims if v not in unused]
            if bad:
                self.fail("gc-removed-used-package", "%s is in use by Bob's own definition; %s" % ([name(b) for b in bad], where))
                return
            if allu:
                if set(victims) != unused:
                    self.fail("gc-all-unused-incomplete", "unused packages %r; %s" % (sorted(name(b) for b in unused), where))
                return
            if quota is None:
                if victims:
                    self.fail("gc-without-quota-removed", where)
                return
            prev_age = None
            for v in victims:
                if size <= quota:
                    self.fail("gc-removed-below-quota", "removal of %s was not needed (size %d <= quota); %s" % (name(v), size, where))
                    return
                if prev_age is not None and pk[v]["age"] < prev_age:
                    self.fail("gc-not-oldest-first", "victims not in non-decreasing age order; %s" % where)
                    return
                prev_age = pk[v]["age"]
                size -= pk[v]["rsize"]
            rest = unused - set(victims)
            if victims and any(pk[u]["age"] < max(pk[v]["age"] for v in victims) for u in rest):
                self.fail("gc-not-oldest-first", "an older unused package survived a younger victim; %s" % where)
                return
            if size > quota and rest:
                self.fail("gc-stopped-over-quota", "size %d still over quota with unused packages %r left; %s" %
                          (size, sorted(name(b) for b in rest), where))
                return
            if victims: self.labels.add("gc-quota-victims:%d" % min(len(victims), 3))
            if victims and rest: self.labels.add("gc-partial-oldest-first-decided")
        else:
            self.labels.add("gc-forced")
            for v in victims:
                certainly_used = pk[v]["bob_used"] and v not in touched      # touched: Bob may have seen either state
                if certainly_used and quota is not None and size <= quota:
                    self.fail("forced-gc-removed-used-below-quota", "%s removed although size %d <= quota; %s" % (name(v), size, where))
                    return
                if certainly_used and any(u not in victims[:victims.index(v)] for u in unused):
                    self.labels.add("info_forced_gc_took_used_before_unused")
                size -= pk[v]["rsize"]
            if allu and (unused - set(victims)):
                self.labels.add("info_all_unused_not_honoured_with_used")
        if rec["ret"] is not None and not isinstance(rec["ret"], bool):
            exp = snap["total"] - sum(pk[v]["rsize"] for v in victims)
            if rec["ret"] != exp:
                self.fail("gc-return-size-mismatch", "returned %r, remaining size by repo.json is %d; %s" % (rec["ret"], exp, where))

    # ---------------------------------------------------------------------------------
    def ev_op_done(self, wid, info):
        r = info["res"]
        i = info["i"]
        self.results[i] = r
        self.cur.pop(wid, None)
        kind = r["kind"]
        w = self.w
        if r.get("exc"):
            e = r["exc"]
            opname = kind if kind != "gc" else "gc"
            if kind == "gc" and e["type"] == "FileNotFoundError" and "repo.json" in e["msg"] and \
                    (self.norepo_at_enter.pop(wid, False) or not os.path.exists(os.path.join(w.store, "repo.json"))):
                self.fail("gc-raised-on-store-without-repo.json", "op #%d gc(pruneUsed=%s, pruneUnused=%s, dryRun=%s) with quota %s on a "
                          "store directory that exists but has no repo.json yet raised %s: %s" %
                          (i, r["used"], r["all"], r["dry"], w.quota, e["type"], self.short_msg(e["msg"])))
                return
            if kind == "gc" and e["type"] == "TypeError" and w.quota is None and r["used"] and r["all"] and "NoneType" in e["msg"]:
                self.fail("gc-raised-TypeError:used+all-unused-without-quota", "op #%d gc(pruneUsed=True, pruneUnused=True, dryRun=%s) "
                          "(`bob clean --shared --used --all-unused`) without a configured quota and with a package in use raised "
                          "%s: %s\n%s" % (i, r["dry"], e["type"], e["msg"], e["tb"]))
                return
            if e["type"] == "JSONDecodeError" or "Corrupt meta info" in e["msg"]:
                br = self.bad_read.pop(wid, None)
                if br is not None and br[0] == "creation":
                    self.fail("repo-json-read-between-creation-and-lock", "op #%d %r raised %s: %s; when it locked %s worker %d (first "
                              "install into the store, LocalShare.__addPackage) had created the file with open(fn, 'x') and not yet "
                              "locked and filled it: repo.json exists, is empty and unlocked in between\n%s" %
                              (i, self.op_text(r), e["type"], self.short_msg(e["msg"]), self.short(br[2]), br[1], e["tb"][-300:]))
                    return
                if br is not None and br[0] == "unflushed":
                    self.fail("metadata-read-between-unlock-and-flush", "op #%d %r raised %s: %s; when it locked %s worker %d had "
                              "rewritten the file (seek(0), truncate(), json.dump into the buffered file object), released the flock and "
                              "not yet closed the file: OpenLocked.__exit__ unlocks BEFORE close() flushes, so the file is empty/truncated "
                              "and unlocked in between\n%s" % (i, self.op_text(r), e["type"], self.short_msg(e["msg"]), self.short(br[2]),
                                                               br[1], e["tb"][-300:]))
                    return
            if kind == "fin" and r.get("tampered") and e["builderror"] and "hash changed" in e["msg"]:
                self.labels.add("install-refused-changed-content")      # the documented refusal
                self.building.pop((r["proj"], r["slot"]), None)
                return
            head = self.short_msg(e["msg"]).split(":")[0][:40] if e["builderror"] else ""
            self.fail("%s-raised-%s%s" % (opname, e["type"], (":" + head) if head else ""),
                      "op #%d %r raised %s: %s\n%s" % (i, self.op_text(r), e["type"], self.short_msg(e["msg"]), e["tb"]))
            return
        if kind == "prep":
            p = w.pkgs[r["pkg"]]
            key = (r["proj"], r["slot"])
            self.building.pop(key, None)
            if r["shared"]:
                self.shared_use_projs.add(r["proj"])
                self.labels.add("use-shared")
                self.tick(p)
                if r.get("use_hash") != p.hash.hex():
                    self.fail("use-wrong-hash", "op #%d: useSharedPackage handed out hash %s for p%d, content hash is %s" %
                              (i, r.get("use_hash"), p.idx, p.hash.hex()))
                self.check_link(i, r, p, "use")
            elif not r.get("uptodate"):
                self.building[key] = {"bid": p.hex, "gc": False, "gc_after_foreign_use": False}
        elif kind == "fin" and not r.get("noop"):
            p = w.pkgs[r["pkg"]]
            b = self.building.pop((r["proj"], r["slot"]), None) or {}
            pr = w.projects[r["proj"]]
            if r["installed"] is True:
                self.labels.add("installed")
                ci = self.commit_inc.get(wid)
                if ci is None:
                    self.fail("installed-true-without-rename", "op #%d reported installed=True but no rename into %s succeeded" % (i, self.short(p.dir)))
                    return
                if (p.hex, ci) in self.true_installs:
                    self.fail("double-install", "ops #%d and #%d both returned installed=True for build-id p%d without a collection in between" %
                              (self.true_installs[(p.hex, ci)], i, p.idx))
                    return
                self.true_installs[(p.hex, ci)] = i
                self.tick(p)
            elif r["installed"] is False:
                self.labels.add("install-race-lost")
                self.labels.add("race-same-bid")
                self.nontrivial = True
            if b.get("gc"):
                self.labels.add("gc-during-build")
                if b.get("gc_after_foreign_use"):
                    self.labels.add("gc-between-use-and-install")
                    self.nontrivial = True
            if pr.use and pr.inst and r["installed"] is not None:
                W = r["W"]
                if r["installed"] is False and not os.path.islink(W) and self.mode != "seq":
                    # the loser of an install race could not register as user of the winner's package (useSharedPackage
                    # returned None) and the builder made no link: legitimate only if the project still has its own,
                    # complete result
                    c = treecanon.canon(W) if os.path.isdir(W) else None
                    if c == p.canon:
                        self.labels.add("install-race-lost-kept-private")
                    else:
                        self.fail("result-lost-after-lost-install-race", "op #%d: installSharedPackage returned installed=False, the "
                                  "builder created no link and %s %s: the project is left without the package result although "
                                  "its state says it was built (the workspace had been moved into the store's temporary directory "
                                  "before the final rename was lost, and is deleted with it)" %
                                  (i, self.short(W), "does not exist" if c is None else "is incomplete: %r" % treecanon.diff(p.canon, c)[:3]))
                else:
                    self.check_link(i, r, p, "install")
        elif kind == "gc":
            rec = self.lastgc.pop(wid, None)
            self.labels.add("gc%s%s%s" % ("-used" if r["used"] else "", "-all" if r["all"] else "", "-dry" if r["dry"] else ""))
            if rec is not None and rec["snap"] is not None:
                rep = [self.pkg_of(x).hex if self.pkg_of(x) else x for x in r["reported"]]
                if r["dry"]:
                    if rec["victims"]:
                        self.fail("dry-run-removed", "op #%d --dry-run moved %r away" % (i, [v["bid"][:8] for v in rec["victims"]]))
                        return
                    self.judge_gc(wid, rec, rep)
                elif rep != [v["bid"] for v in rec["victims"]]:
                    self.fail("gc-report-differs", "op #%d reported %r but removed %r" % (i, rep, [v["bid"] for v in rec["victims"]]))

    def short_msg(self, m):
        return m.replace(self.w.base + "/", "")

    def op_text(self, r):
        return {k: v for k, v in r.items() if k in ("kind", "proj", "slot", "pkg", "used", "all", "dry")}

    def tick(self, p):
        self.clock += 1
        self.last_use[p.hex] = self.clock

    def check_link(self, i, r, p, how):
        W = r["W"]
        want = os.path.join(p.dir, "workspace")
        if not os.path.islink(W) or os.readlink(W) != want:
            self.fail("link-wrong-target", "op #%d (%s): %s is %s, expected link to %s" %
                      (i, how, self.short(W), os.readlink(W) if os.path.islink(W) else "not a link", self.short(want)))
        elif not os.path.isdir(W):
            if self.mode == "seq":
                self.fail("link-dangling-after-%s" % how, "op #%d: %s -> %s does not resolve" % (i, self.short(W), self.short(want)))
            else:
                self.labels.add("info_%s_window" % how)

    # ---------------------------------------------------------------------------------
    def verify_pkg(self, hexid, d, where):
        from bob.utils import hashDirectory
        p = self.w.byhex.get(hexid)
        if p is None:
            raise HarnessError("unknown package dir %s" % d)
        ws = os.path.join(d, "workspace")
        for n in ("workspace", "audit.json.gz", "pkg.json"):
            if not os.path.exists(os.path.join(d, n)):
                self.fail("visible-package-incomplete", "%s: %s lacks %s (has %r)" % (where, self.short(d), n, sorted(os.listdir(d))))
                return False
        try:
            with _real["open"](os.path.join(d, "pkg.json")) as f:
                meta = json.load(f)
        except ValueError as e:
            self.fail("pkg-json-unreadable", "%s: %s/pkg.json: %s" % (where, self.short(d), e))
            return False
        if meta.get("hash") != p.hash.hex():
            self.fail("recorded-hash-wrong", "%s: pkg.json of p%d records %s, content hash is %s" % (where, p.idx, meta.get("hash"), p.hash.hex()))
            return False
        h = hashDirectory(ws)
        c = treecanon.canon(ws)
        if h != p.hash or c != p.canon:
            self.fail("stored-content-differs", "%s: p%d in the store: hashDirectory %s (expected %s), tree diff %r" %
                      (where, p.idx, h.hex(), p.hash.hex(), treecanon.diff(p.canon, c)[:4]))
            return False
        if meta.get("size") != p.size:
            self.fail("recorded-size-wrong", "%s: pkg.json of p%d records size %r, sum of st_size is %d" % (where, p.idx, meta.get("size"), p.size))
            return False
        return True

    def light_check(self, where):
        """every package dir that another process could see right now is complete (called with all workers paused)"""
        for hexid, d in self.w.visible().items():
            try:
                key = (hexid, os.stat(d).st_ino)
            except FileNotFoundError:
                continue
            if key in self.verified:
                for n in ("workspace", "audit.json.gz", "pkg.json"):
                    if not os.path.lexists(os.path.join(d, n)):
                        self.fail("visible-package-incomplete", "%s: %s lost %s" % (where, self.short(d), n))
                continue
            if self.verify_pkg(hexid, d, where):
                self.verified.add(key)
            if self.failure:
                return

    def full_check(self, where):
        """quiescent point: nothing in flight"""
        w = self.w
        vis = w.visible()
        for hexid, d in sorted(vis.items()):
            if not self.verify_pkg(hexid, d, where):
                return
        rp = os.path.join(w.store, "repo.json")
        if not os.path.exists(rp):
            if vis:
                self.fail("repo-json-missing", "%s: packages %r visible but no repo.json" % (where, sorted(vis)))
            return
        try:
            with _real["open"](rp) as f:
                repo = json.load(f)
        except ValueError as e:
            self.fail("repo-json-unreadable", "%s: %s" % (where, e))
            return
        listed = repo.get("pkgs", {})
        name = lambda b: "p%d" % w.byhex[b].idx if b in w.byhex else b
        if set(listed) != set(vis):
            self.fail("repo-json-lists-wrong-packages", "%s: repo.json lists %r, visible are %r" %
                      (where, sorted(map(name, listed)), sorted(map(name, vis))))
            return
        for b, sz in listed.items():
            if sz != w.byhex[b].size:
                self.fail("repo-json-size-wrong", "%s: repo.json has %r for %s, pkg.json/size is %d" % (where, sz, name(b), w.byhex[b].size))
                return

# =========================================================================================
# sequential execution
class SeqCtx(WorkerCtx):
    def __init__(self, mon):
        super().__init__(0)
        self.mon = mon
    def event(self, kind, **info):
        self.mon.on_event(self.wid, kind, info)

def stamp(world, mon, before):
    """logical clock: every pkg.json whose mtime Bob changed in this op gets the op's logical time"""
    t = (CLOCK_BASE + mon.clock_op) * 10**9
    for hexid, d in world.visible().items():
        pj = os.path.join(d, "pkg.json")
        try:
            s = os.stat(pj)
        except FileNotFoundError:
            continue
        if before.get(hexid) != (s.st_ino, s.st_mtime_ns):
            os.utime(pj, ns=(t, t))

def mtimes(world):
    out = {}
    for hexid, d in world.visible().items():
        try:
            s = os.stat(os.path.join(d, "pkg.json"))
            out[hexid] = (s.st_ino, s.st_mtime_ns)
        except FileNotFoundError:
            pass
    return out

def run_seq(world, mon, history):
    wk = SeqCtx(mon)
    _tls.wk = wk
    try:
        mon.clock_op = 0
        for i, op in enumerate(history):
            if op[0] == "sync":
                continue
            pr = world.projects[op[1] % world.nproj]
            wk.wid = pr.idx
            mon.clock_op += 1
            before = mtimes(world)
            pre_vis = set(world.visible())
            pre_repo = mon.snap() if op[0] in ("gc", "fin") else None
            wk.event("op-start", i=i, op=op)
            try:
                res = pr.run(op, wk)
            except SelfDeadlock as e:
                mon.fail("deadlock", "op #%d %r: %s" % (i, op, e))
                return
            wk.event("op-done", i=i, res=res)
            if mon.failure:
                return
            where = "after op #%d %r" % (i, op)
            post_vis = set(world.visible())
            if res.get("exc") is None:
                if op[0] == "fin" and not res.get("noop") and res.get("installed") is not None:
                    p = world.pkgs[res["pkg"]]
                    if res["installed"] != (p.hex not in pre_vis):
                        mon.fail("install-result-inconsistent", "%s: installed=%s but the package was %svisible before" %
                                 (where, res["installed"], "" if p.hex in pre_vis else "not "))
                    elif p.hex not in post_vis:
                        mon.fail("installed-package-not-visible", "%s: p%d is not in the store after its installation" % (where, p.idx))
                    elif res["installed"] and world.quota is not None and world.autoClean:
                        # automatic cleaning must have run if the store is over quota and something could go
                        s2 = mon.snap()
                        if s2["total"] > world.quota:
                            rest = [b for b, e in s2["pk"].items() if e["listed"] and e["ok"] and not e["bob_used"] and b != p.hex]
                            if rest:
                                mon.fail("autoclean-left-quota-exceeded", "%s: size %d > quota %d and unused packages %r remain" %
                                         (where, s2["total"], world.quota, ["p%d" % world.byhex[b].idx for b in rest]))
                if op[0] == "gc" and res["dry"] and (post_vis != pre_vis or mon.snap()["repo"] != pre_repo["repo"]):
                    mon.fail("dry-run-changed-store", "%s: visible %r -> %r" % (where, sorted(pre_vis), sorted(post_vis)))
            if mon.failure:
                return
            mon.full_check(where)
            if mon.failure:
                return
            stamp(world, mon, before)
    finally:
        _tls.wk = None

# =========================================================================================
# owned schedules: worker side
class ThreadCtx(WorkerCtx):
    def __init__(self, wid, q, mon):
        super().__init__(wid)
        self.q = q
        self.mon = mon
        self.sem = threading.Semaphore(0)
        self.reply = None
    def point(self, kind, **info):
        if self.aborted:
            return
        self.q.put((self.wid, "point", kind, info))
        self.sem.acquire()
        if self.reply == "abort":
            self.aborted = True
            raise _Abort()
    def event(self, kind, **info):
        if self.aborted:
            return
        self.mon.on_event(self.wid, kind, info)     # only the granted worker runs: no race
    def finish(self, crash=None):
        self.q.put((self.wid, "done", crash, None))
    def answer(self, val):
        self.reply = val
        self.sem.release()

def _send(fd, obj):
    data = pickle.dumps(obj)
    data = struct.pack("=L", len(data)) + data
    while data:
        n = os.write(fd, data)
        data = data[n:]

def _recv(fd):
    def rd(n):
        buf = b""
        while len(buf) < n:
            c = os.read(fd, n - len(buf))
            if not c:
                raise EOFError()
            buf += c
        return buf
    (n,) = struct.unpack("=L", rd(4))
    return pickle.loads(rd(n))

# events whose handler inspects files that the reporting worker itself changes before its next point; all other
# events are sent without waiting (the parent handles them, in order, before it looks at the worker's next point)
SYNC_EVENTS = ("locked", "pre-rename")

class ForkCtx(WorkerCtx):
    """runs inside the forked worker"""
    def __init__(self, wid, rfd, wfd):
        super().__init__(wid)
        self.rfd, self.wfd = rfd, wfd
    def point(self, kind, **info):
        if self.aborted:
            return
        _send(self.wfd, (self.wid, "point", kind, info))
        if _recv(self.rfd) == "abort":
            self.aborted = True
            raise _Abort()
    def event(self, kind, **info):
        if self.aborted:
            return
        _send(self.wfd, (self.wid, "event", kind, info))
        if kind in SYNC_EVENTS:
            _recv(self.rfd)
    def finish(self, crash=None):
        _send(self.wfd, (self.wid, "done", crash, None))

def worker_body(wk, project, ops):
    """ops = [(global index, op)]; sync ops are barriers"""
    crash = None
    try:
        wk.point("start")
        nb = 0
        for i, op in ops:
            if op[0] == "sync":
                nb += 1
                wk.point("barrier", n=nb)
                continue
            wk.point("op-start", i=i)
            wk.event("op-start", i=i, op=op)
            res = project.run(op, wk)
            wk.event("op-done", i=i, res=res)
    except _Abort:
        pass
    except SelfDeadlock as e:
        crash = "selfdeadlock: %s" % e
    except BaseException:
        crash = traceback.format_exc()
    wk.aborted = True if crash else wk.aborted
    return crash

# =========================================================================================
# owned schedules: scheduler side
class Sched:
    def __init__(self, world, mon, schedule, plan, transport):
        self.world, self.mon = world, mon
        self.schedule = [tuple(x) for x in schedule]
        self.si = 0
        self.plan = plan                    # wid -> [(i, op)]
        self.tr = transport
        self.curw = None
        self.remaining = 0
        self.barrier_open = 0
        self.grants = 0
        self.switches = 0

    def eligible(self, wid, msg):
        kind, info = msg
        if kind == "lock":
            holders = self.mon.locks.get(info["key"], {})
            others = {w: ex for w, ex in holders.items() if w != wid}
            if info["ex"]:
                return not others
            return not any(others.values())
        if kind == "barrier":
            return info["n"] <= self.barrier_open
        return True

    def choose(self, el):
        if self.curw in el and self.remaining > 0:
            self.remaining -= 1
            return self.curw
        self.switches += 1
        if self.si < len(self.schedule):
            pick, runlen = self.schedule[self.si]
            self.si += 1
            self.curw = el[pick % len(el)]
            self.remaining = max(0, runlen - 1)
        else:
            self.curw = self.curw if self.curw in el else el[0]
            self.remaining = 10**6
        return self.curw

    def run(self):
        tr, mon = self.tr, self.mon
        running = set(self.plan)
        blocked = {}
        mon.paused = blocked
        crashed = None
        while running or blocked:
            while running:
                wid, typ, a, b = tr.recv()
                if typ == "event":
                    mon.on_event(wid, a, b)
                    if a in SYNC_EVENTS:
                        tr.answer(wid, "ok")
                elif typ == "point":
                    blocked[wid] = (a, b)
                    running.discard(wid)
                elif typ == "done":
                    running.discard(wid)
                    if a:
                        crashed = (wid, a)
            if crashed:
                if crashed[1].startswith("selfdeadlock"):
                    mon.fail("deadlock", crashed[1])
                else:
                    tr.abort(blocked)
                    raise HarnessError("C15 worker %d crashed:\n%s" % crashed)
            if mon.failure:
                tr.abort(blocked)
                return
            if not blocked:
                break
            el = sorted(w for w, m in blocked.items() if self.eligible(w, m))
            if not el:
                bars = [m for m in blocked.values() if m[0] == "barrier"]
                if len(bars) == len(blocked):
                    n = min(m[1]["n"] for m in bars)
                    mon.full_check("at barrier %d" % n)
                    if mon.failure:
                        tr.abort(blocked)
                        return
                    restamp(self.world)
                    mon.labels.add("barrier-quiescent-check")
                    self.barrier_open = n
                    continue
                mon.fail("deadlock", "no worker can proceed: %r; locks %r" %
                         ({w: (m[0], mon.short(m[1].get("path"))) for w, m in blocked.items()}, mon.locks))
                tr.abort(blocked)
                return
            mon.light_check("while workers are paused at %r" % {w: m[0] for w, m in blocked.items()})
            if mon.failure:
                tr.abort(blocked)
                return
            wid = self.choose(el)
            self.grants += 1
            if self.grants > 6000:
                tr.abort(blocked)
                raise HarnessError("C15 scheduler: more than 6000 grants")
            del blocked[wid]
            running.add(wid)
            tr.answer(wid, "go")

def restamp(world):
    """barrier: spread the real mtimes onto distinct logical times (order kept, ties by build-id)"""
    ents = []
    for hexid, d in world.visible().items():
        pj = os.path.join(d, "pkg.json")
        try:
            ents.append((os.stat(pj).st_mtime_ns, hexid, pj))
        except FileNotFoundError:
            pass
    for n, (_, _, pj) in enumerate(sorted(ents)):
        t = (CLOCK_BASE + n) * 10**9
        os.utime(pj, ns=(t, t))

class ThreadTransport:
    def __init__(self, world, mon, plan):
        self.q = queue.Queue()
        self.ctx = {}
        self.threads = {}
        for wid, ops in plan.items():
            wk = ThreadCtx(wid, self.q, mon)
            self.ctx[wid] = wk
            t = threading.Thread(target=self._main, args=(wk, world.projects[wid], ops), daemon=True)
            self.threads[wid] = t
        for t in self.threads.values():
            t.start()
    def _main(self, wk, project, ops):
        _tls.wk = wk
        crash = worker_body(wk, project, ops)
        wk.finish(crash)
    def recv(self):
        try:
            return self.q.get(timeout=120)
        except queue.Empty:
            raise HarnessError("C15 thread scheduler: no message for 120 s")
    def answer(self, wid, val):
        self.ctx[wid].answer(val)
    def abort(self, blocked):
        for wid in list(blocked):
            self.ctx[wid].answer("abort")
        self.close()
    def close(self):
        for wid, t in self.threads.items():
            t.join(timeout=30)
            if t.is_alive():
                raise HarnessError("C15 worker thread %d does not terminate" % wid)

class ForkTransport:
    def __init__(self, world, mon, plan):
        self.pids = {}
        self.rfd = {}
        self.wfd = {}
        sys.stdout.flush(); sys.stderr.flush()
        for wid, ops in plan.items():
            c2p_r, c2p_w = os.pipe()
            p2c_r, p2c_w = os.pipe()
            pid = os.fork()
            if pid == 0:
                try:
                    os.close(c2p_r); os.close(p2c_w)
                    for fd in list(self.rfd.values()) + list(self.wfd.values()):
                        os.close(fd)
                    signal.signal(signal.SIGINT, signal.SIG_DFL)
                    wk = ForkCtx(wid, p2c_r, c2p_w)
                    _proc_wk[0] = wk
                    os.chdir(world.projects[wid].root)
                    crash = worker_body(wk, world.projects[wid], ops)
                    wk.finish(crash)
                except BaseException:
                    pass
                finally:
                    os._exit(0)
            os.close(c2p_w); os.close(p2c_r)
            self.pids[wid] = pid
            self.rfd[wid] = c2p_r
            self.wfd[wid] = p2c_w
        self.live = dict(self.rfd)
    def recv(self):
        while True:
            if not self.live:
                raise HarnessError("C15 fork scheduler: all workers gone")
            r, _, _ = select.select(list(self.live.values()), [], [], 120)
            if not r:
                self.kill()
                raise HarnessError("C15 fork scheduler: no message for 120 s")
            fd = r[0]
            wid = [w for w, f in self.live.items() if f == fd][0]
            try:
                msg = _recv(fd)
            except EOFError:
                del self.live[wid]
                self.kill()
                raise HarnessError("C15 forked worker %d died" % wid)
            if msg[1] == "done":
                del self.live[wid]
            return msg
    def answer(self, wid, val):
        try:
            _send(self.wfd[wid], val)
        except OSError:
            pass
    def kill(self):
        for wid, pid in list(self.pids.items()):
            try:
                os.kill(pid, signal.SIGKILL)
            except ProcessLookupError:
                pass
    def abort(self, blocked):
        self.kill()
        self.close()
    def close(self):
        for wid, pid in list(self.pids.items()):
            try:
                os.waitpid(pid, 0)
            except ChildProcessError:
                pass
            del self.pids[wid]
        for fd in list(self.rfd.values()) + list(self.wfd.values()):
            try:
                os.close(fd)
            except OSError:
                pass
        self.rfd = {}; self.wfd = {}

def run_conc(world, mon, history, schedule, mode):
    plan = {}
    for i, op in enumerate(history):
        if op[0] == "sync":
            continue
        plan.setdefault(op[1] % world.nproj, [])
    for i, op in enumerate(history):
        if op[0] == "sync":
            for ops in plan.values():
                ops.append((i, op))
        else:
            plan[op[1] % world.nproj].append((i, op))
    if not plan:
        return None
    tr = (ThreadTransport if mode == "thr" else ForkTransport)(world, mon, plan)
    sched = Sched(world, mon, schedule, plan, tr)
    try:
        sched.run()
    except BaseException:
        try:
            tr.abort({})
        except Exception:
            pass
        raise
    else:
        tr.close()
    if mon.failure is None:
        mon.full_check("at the end")
    return sched

# =========================================================================================
_shm = {}
def scratch(ctx):
    """Directory operations on the ext4 scratch disk are serialised machine wide (rmdir ~14 ms with 16 shards), the
    cases consist of little else: use a tmpfs (same flock / rename / link semantics) when there is one."""
    root = "/dev/shm"
    if os.environ.get("VERIF_C15_DISK") or not os.path.isdir(root) or not os.access(root, os.W_OK):
        return ctx.tmpdir()
    top = _shm.get("top")
    if top is None or _shm.get("pid") != os.getpid():
        top = os.path.join(root, "verif-C15-%d" % os.getpid())
        shutil.rmtree(top, ignore_errors=True)
        os.makedirs(top)
        _shm.update(top=top, pid=os.getpid(), n=0)
        import atexit
        atexit.register(lambda t=top, p=os.getpid(): os.getpid() == p and shutil.rmtree(t, ignore_errors=True))
    _shm["n"] += 1
    d = os.path.join(top, "c%d" % _shm["n"])
    os.makedirs(d)
    return d

def drop_scratch():
    top = _shm.pop("top", None)
    if top and _shm.get("pid") == os.getpid():
        shutil.rmtree(top, ignore_errors=True)

def run_case(ctx, case, mode=None, record=True):
    mode = mode or case.get("mode", "seq")
    base = scratch(ctx)
    install_wrappers()
    cwd = os.getcwd()
    try:
        world = World(base, case)
        mon = Monitor(world, mode)
        mon.clock_op = 0
        sched = None
        if mode == "seq":
            run_seq(world, mon, case["history"])
        else:
            sched = run_conc(world, mon, case["history"], case.get("schedule") or [], mode)
        labels = set(mon.labels)
        labels.add("mode:" + mode)
        cfg = case["cfg"]
        labels.add("quota:" + ("none" if cfg.get("quota") is None else "tight" if cfg["quota"] <= 3 else "mid" if cfg["quota"] <= 6 else "loose"))
        labels.add("autoClean:%s" % bool(cfg.get("autoClean", True)))
        labels.add("start:" + world.start)
        labels.add("store-path:" + ["plain", "is-symlink", "parent-is-symlink"][world.store_via])
        labels.add("projects:%d" % world.nproj)
        if sched is not None:
            labels.add("switches:%s" % ("0-1" if sched.switches <= 1 else "2-5" if sched.switches <= 5 else "6-15" if sched.switches <= 15 else ">15"))
            ctx.extra["grants"] = ctx.extra.get("grants", 0) + sched.grants
        for s, d in mon.soft:
            labels.add("soft:" + s)
        if record:
            ctx.record(jhash(case), mon.nontrivial, sorted(labels),
                       {"mode": mode, "cfg": cfg, "history": case["history"][:10], "schedule": (case.get("schedule") or [])[:8],
                        "classes": sorted(l for l in labels if not l.startswith(("mode", "quota", "start", "projects", "autoClean")))})
        ctx.extra["ops"] = ctx.extra.get("ops", 0) + len(mon.results)
        ctx.extra["install_commits"] = ctx.extra.get("install_commits", 0) + mon.stats["install-commits"]
        ctx.extra["collections"] = ctx.extra.get("collections", 0) + mon.stats["collections"]
        for sig, detail in mon.soft:
            ctx.fail(sig, detail, case)
        if mon.failure is not None:
            ctx.fail(mon.failure[0], mon.failure[1], case)
    finally:
        _tls.wk = None
        try:
            os.chdir(cwd)
        except OSError:
            pass
        uninstall_wrappers()
        vlib.rmtree(base)

def check(ctx, case):
    if case.get("mode") == "fork" and ctx.out_of_time() and not ctx.in_shrink:
        return              # slow layer: the time guard also applies inside a batch (the first example of a batch is the minimal one)
    try:
        run_case(ctx, case)
    except Violation as v:
        if case.get("mode") != "thr":
            raise
        # thread mode shares one interpreter: confirm the same schedule with forked processes
        try:
            run_case(ctx, case, mode="fork", record=False)
        except Violation as v2:
            if v2.signature == v.signature:
                raise v
            ctx.label("fork-confirmation-other-signature")
            raise v
        ctx.label("unconfirmed-in-forked-processes")
        ctx.inconclusive += 1

# =========================================================================================
# L2: two real Bob projects with a shared package, built concurrently as real processes
def e2e_project(base, name, npkg, store, quota, rv):
    d = os.path.join(base, name)
    os.makedirs(os.path.join(d, "recipes"))
    with open(os.path.join(d, "config.yaml"), "w") as f:
        f.write('bobMinimumVersion: "0.25"\n')
    with open(os.path.join(d, "default.yaml"), "w") as f:
        f.write("share:\n    path: %s\n    quota: %s\n" % (json.dumps(store), "null" if quota is None else json.dumps(str(quota))))
    for k in range(npkg):
        # identical recipes in both projects => same Build-Id.  The package step announces itself and waits (bash
        # builtins only, at most ~10 s) until a second builder of the same package has arrived, so that both projects
        # are between "no shared package available" and "install" at the same time.
        with open(os.path.join(d, "recipes", "pkg%d.yaml" % k), "w") as f:
            f.write("root: True\nshared: True\nbuildScript: |\n    true\npackageScript: |\n"
                    "    printf '%%s' 'content-%d' > result.txt\n"
                    "    : > %s/arrive%d.$$\n"
                    "    exec 9<>%s/fifo\n"
                    "    for ((i=0;i<100;i++)); do set -- %s/arrive%d.*; if [ $# -ge 2 ]; then break; fi; read -t 0.1 -u 9 || :; done\n"
                    % (k, rv, k, rv, rv, k))
    return d

def e2e_store_check(ctx, case, store, where):
    """invariants (1) and (4) on a store written by real Bob processes"""
    from bob.utils import hashDirectory
    vis = {}
    if os.path.isdir(store):
        for a in os.listdir(store):
            pa = os.path.join(store, a)
            if len(a) == 2 and os.path.isdir(pa):
                for b in os.listdir(pa):
                    for c in os.listdir(os.path.join(pa, b)):
                        if c.endswith("-3"):
                            vis[a + b + c[:-2]] = os.path.join(pa, b, c)
    sizes = {}
    for hexid, d in vis.items():
        for n in ("workspace", "audit.json.gz", "pkg.json"):
            if not os.path.exists(os.path.join(d, n)):
                ctx.fail("visible-package-incomplete", "%s: %s lacks %s" % (where, d, n), case)
                return vis
        with open(os.path.join(d, "pkg.json")) as f:
            meta = json.load(f)
        h = hashDirectory(os.path.join(d, "workspace")).hex()
        if h != meta.get("hash"):
            ctx.fail("stored-content-differs", "%s: %s records hash %s, content hashes to %s" % (where, d, meta.get("hash"), h), case)
        c = treecanon.canon(os.path.join(d, "workspace"))
        names = [x[0] for x in c]
        if names != [b"result.txt"]:
            ctx.fail("stored-content-differs", "%s: %s contains %r" % (where, d, names), case)
        sizes[hexid] = meta.get("size")
    rp = os.path.join(store, "repo.json")
    listed = {}
    if os.path.exists(rp):
        with open(rp) as f:
            listed = json.load(f).get("pkgs", {})
    if listed != sizes:
        ctx.fail("repo-json-lists-wrong-packages", "%s: repo.json %r, visible packages with their pkg.json sizes %r" % (where, listed, sizes), case)
    return vis

def run_e2e(ctx, case, guard=False):
    from vlib import bobproc
    if guard and ctx.out_of_time():
        return
    base = ctx.tmpdir()            # real processes: the ordinary scratch disk
    try:
        store = os.path.join(base, "store")
        if case.get("store_via"):
            os.makedirs(os.path.join(base, "disk", "mnt"))
            os.symlink(os.path.join(base, "disk", "mnt"), os.path.join(base, "mnt"))
            store = os.path.join(base, "mnt", "store")
            ctx.label("e2e-store-path:parent-is-symlink")
        rv = os.path.join(base, "rv")
        os.makedirs(rv)
        os.mkfifo(os.path.join(rv, "fifo"))
        if case["start"] == "empty":
            os.makedirs(store)
        npkg = case["npkg"]
        projs = [e2e_project(base, "p%d" % i, npkg, store, case["quota"], rv) for i in range(2)]
        names = ["pkg%d" % k for k in range(npkg)]
        labels = {"mode:e2e", "e2e-clean:" + (" ".join(case["clean"]) or "plain")}
        res = {}
        def build(i):
            res[i] = bobproc.script(projs[i], ["dev"] + names, timeout=150)
        ts = [threading.Thread(target=build, args=(i,)) for i in range(2)]
        for t in ts: t.start()
        for t in ts: t.join()
        def failed(what, r):
            if r.rc == -999:
                # no verdict from a command that did not finish in time on a loaded machine
                ctx.inconclusive += 1
                ctx.label("e2e-timeout")
                ctx.extra.setdefault("e2e_timeouts", []).append("%s: %s" % (what, (r.out + r.err)[-300:]))
                return
            meta = "JSONDecodeError" in r.err or "Corrupt meta info" in r.err or "Corrupt meta info" in r.out
            ctx.fail("e2e-metadata-race" if meta else "e2e-command-failed",
                     "%s exited with %d: %s %s" % (what, r.rc, r.out[-300:], r.err[-600:]), case)
        for i in range(2):
            if res[i].rc != 0:
                failed("concurrent `bob dev %s` in project %d" % (" ".join(names), i), res[i])
                return
        lost = sum(r.out.count("package already installed") for r in res.values())
        if lost:
            labels.add("e2e-install-race-lost")
        vis = e2e_store_check(ctx, case, store, "after the concurrent builds")
        def links():
            out = {}
            for i in range(2):
                for n in names:
                    w = os.path.join(projs[i], "dev", "dist", n, "1", "workspace")
                    if os.path.islink(w) and os.path.isdir(w):
                        out[w] = os.path.dirname(os.readlink(w))
            return out
        before = links()
        users = {}
        for d in vis.values():
            with open(os.path.join(d, "pkg.json")) as f:
                users[d] = json.load(f).get("users", [])
        drop = case["drop"]
        if drop < 2:
            shutil.rmtree(os.path.join(projs[drop], "dev"))
        r = bobproc.script(projs[0], ["clean", "--shared"] + case["clean"], timeout=150)
        if r.rc != 0:
            if case["quota"] is None and "--used" in case["clean"] and "--all-unused" in case["clean"] and "NoneType" in r.err:
                ctx.fail("gc-raised-TypeError:used+all-unused-without-quota", "`bob clean --shared %s`: %s" % (" ".join(case["clean"]), r.err[-400:]), case)
            else:
                failed("`bob clean --shared %s`" % " ".join(case["clean"]), r)
                return
        after = links()
        forced = "--used" in case["clean"]
        if "--dry-run" in case["clean"]:
            if set(after) != {w for w in before if drop == 2 or not w.startswith(projs[drop] + "/")}:
                ctx.fail("dry-run-changed-store", "links before %r, after %r" % (sorted(before), sorted(after)), case)
        elif not forced:
            for w, pkgdir in before.items():
                if drop < 2 and w.startswith(projs[drop] + "/"):
                    continue
                if w not in after:
                    if w not in users.get(pkgdir, []):
                        ctx.fail("unregistered-user-package-collected:lost-install-race",
                                 "end to end: %s still links to %s, `bob clean --shared %s` (not forced) collected the package; pkg.json "
                                 "users were %r (the workspace lost the install race: %d 'package already installed' messages)" %
                                 (w[len(base) + 1:], pkgdir[len(base) + 1:], " ".join(case["clean"]), users.get(pkgdir), lost), case)
                    else:
                        ctx.fail("used-package-collected", "end to end: registered user %s of %s lost its package to a non-forced clean" %
                                 (w, pkgdir), case)
        e2e_store_check(ctx, case, store, "after bob clean --shared")
        if case["rebuild"]:
            i = 1 if drop != 1 else 0
            r = bobproc.script(projs[i], ["dev"] + names, timeout=150)
            if r.rc != 0:
                failed("`bob dev` after the clean in project %d" % i, r)
                return
            for n in names:
                if not os.path.isdir(os.path.join(projs[i], "dev", "dist", n, "1", "workspace")):
                    ctx.fail("e2e-result-missing", "no result for %s after the rebuild" % n, case)
            e2e_store_check(ctx, case, store, "after the rebuild")
            labels.add("e2e-rebuild")
        ctx.record(jhash(case), lost > 0, sorted(labels), {"e2e": case})
    finally:
        vlib.rmtree(base)

e2e_st = st.fixed_dictionaries({
    "mode": st.just("e2e"), "npkg": st.integers(1, 2), "quota": st.sampled_from([None, None, 1, 100000]),
    "start": st.sampled_from(["missing", "empty"]), "drop": st.integers(0, 2), "store_via": st.sampled_from([0, 0, 1]),
    "clean": st.sampled_from([["--all-unused"], ["--all-unused"], [], ["--all-unused", "--dry-run"], ["--used"], ["--used", "--all-unused"]]),
    "rebuild": st.booleans(), "history": st.just([]), "cfg": st.just({}),
})

# --------------------------------------------------------------------------------------- strategies
NAMES = ["a", "b", "c", "Dd", "e.txt"]
SIZES = [0, 1, 7, 300, 700, 1500, 5000]
file_st = st.tuples(st.integers(0, 255), st.sampled_from(SIZES), st.integers(0, 3))
def _nodes(d, depth):
    out = []
    files = []
    for name in sorted(d):
        v = d[name]
        if v[0] == "f":
            out.append(["f", name, v[1][0], v[1][1], v[1][2]]); files.append(name)
        elif v[0] == "l":
            out.append(["l", name, v[1]])
        elif v[0] == "h":
            out.append(["h", name, v[1]])
        elif v[0] == "d":
            out.append(["d", name, v[1], _nodes(v[2], depth + 1)])
    # hard links only to regular files of the same directory
    return [n for n in out if n[0] != "h" or (n[2] in files and n[2] != n[1])]
leaf_st = st.one_of(st.tuples(st.just("f"), file_st), st.tuples(st.just("f"), file_st), st.tuples(st.just("f"), file_st),
                    st.tuples(st.just("l"), st.sampled_from(["a", "../x", "/nonexistent", "b/c"])),
                    st.tuples(st.just("h"), st.sampled_from(NAMES)))
sub_st = st.dictionaries(st.sampled_from(NAMES), leaf_st, max_size=3)
node_st = st.one_of(leaf_st, leaf_st, st.tuples(st.just("d"), st.integers(0, 1), sub_st))
tree_st = st.dictionaries(st.sampled_from(NAMES), node_st, min_size=0, max_size=4).map(lambda d: _nodes(d, 0))

I = st.integers(0, 11)
B = st.booleans()
SL = st.integers(0, 3)
def ops_st(conc):
    """elements are short op sequences (flattened afterwards): single ops, need = prep+fin, race = two projects
    prepare the same package before either finishes"""
    prep = st.tuples(st.just("prep"), I, SL, I).map(lambda t: [list(t)])
    fin = st.tuples(st.just("fin"), I, I, st.sampled_from([0, 0, 0, 0, 0, 1])).map(lambda t: [list(t)])
    unuse = st.tuples(st.just("unuse"), I, SL).map(lambda t: [list(t)])
    gc = st.one_of(st.tuples(st.just("gc"), I, st.just(False), st.just(False), B),
                   st.tuples(st.just("gc"), I, st.just(False), B, st.just(False)),
                   st.tuples(st.just("gc"), I, B, B, B)).map(lambda t: [list(t)])
    need = st.tuples(I, SL, I).map(lambda t: [["prep", t[0], t[1], t[2]], ["fin", t[0], 0]])
    race = st.tuples(I, st.integers(1, 3), SL, SL, I, gc | st.just([]), B).map(
        lambda t: [["prep", t[0], t[2], t[4]], ["prep", t[0] + t[1], t[3], t[4]]] + t[5] +
                  ([["fin", t[0], 0], ["fin", t[0] + t[1], 0]] if t[6] else [["fin", t[0] + t[1], 0], ["fin", t[0], 0]]))
    churn = st.tuples(I, SL, I).map(lambda t: [["prep", t[0], t[1], t[2]], ["fin", t[0], 0], ["unuse", t[0], t[1]]])
    # usage history: several packages installed and dropped, some used again later (refreshes their age), then a gc
    touch = st.tuples(I, SL, I).map(lambda t: [["prep", t[0], t[1], t[2]], ["unuse", t[0], t[1]]])
    lru = st.tuples(st.lists(churn, min_size=2, max_size=4), st.lists(touch, max_size=2),
                    st.tuples(st.just("gc"), I, st.just(False), st.just(False), B).map(lambda t: [list(t)]) | need).map(
        lambda t: [op for l in t[0] for op in l] + [op for l in t[1] for op in l] + t[2])
    # a workspace switches to another package (recipe changed): the old package keeps a stale user entry; then gcs
    forced = st.tuples(st.just("gc"), I, st.just(True), B, st.just(False)).map(lambda t: [list(t)])
    switch = st.tuples(I, SL, I, st.integers(1, 3), gc | forced | forced, gc | need).map(
        lambda t: [["prep", t[0], t[1], t[2]], ["fin", t[0], 0], ["prep", t[0], t[1], t[2] + t[3]], ["fin", t[0], 0]] + t[4] + t[5])
    alts = [prep, prep, fin, fin, need, need, need, race, race, churn, churn, lru, lru, switch, switch, unuse, unuse, gc, gc, gc]
    if conc:
        alts.append(st.just([["sync"]]))
    return st.one_of(alts)

def history_st(conc, quick):
    mx = (14 if conc else 22) if quick else 26
    return st.lists(ops_st(conc), min_size=2, max_size=7 if quick else 10).map(lambda ll: [op for l in ll for op in l][:mx])

def case_st(mode, quick):
    conc = mode != "seq"
    return st.fixed_dictionaries({
        "mode": st.just(mode),
        "cfg": st.fixed_dictionaries({
            "nproj": st.integers(2, 3 if conc else 4),
            "quota": st.sampled_from([None, None, 1, 2, 3, 4, 6, 8, 12]),
            "quota_form": st.integers(0, 1),
            "autoClean": st.sampled_from([True, False]),
            "start": st.sampled_from(["empty", "empty", "missing"]),
            "store_via": st.sampled_from([0, 0, 0, 0, 1, 2]),
            "modes": st.lists(st.sampled_from([[True, True]] * 5 + [[True, False], [False, True], [False, True]]), min_size=0, max_size=4),
        }),
        "pkgs": st.lists(tree_st, min_size=1, max_size=4),
        "history": history_st(conc, quick),
        "schedule": (st.lists(st.tuples(st.integers(0, 5), st.sampled_from([1, 1, 2, 2, 3, 4, 5, 7, 10, 15, 25, 60])).map(list),
                              min_size=0, max_size=40) if conc else st.just([])),
    })

LAYERS = [("seq", 0.30, ("history",), 50), ("thr", 0.44, ("history", "schedule"), 30), ("fork", 0.12, ("history", "schedule"), 8),
          ("e2e", 0.14, None, 6)]

def shard(ctx):
    import bob.builder, bob.share  # noqa (warm)
    q = ctx.quick()
    overall = ctx.deadline
    total = overall - time.time()
    t = time.time()
    for mode, frac, mini, batch in LAYERS:
        globals()["BATCH"] = batch
        t += total * frac
        ctx.deadline = min(overall, t)
        if mode == "e2e":
            if ctx.deadline - time.time() < 12:
                continue
            run_hypothesis(ctx, e2e_st, lambda c: run_e2e(ctx, c, guard=True), ctx.n(10**6, 10**7), shrink=False, salt=mode)
        else:
            run_hypothesis(ctx, case_st(mode, q), lambda c: check(ctx, c), ctx.n(10**6, 10**7), shrink=False, minimize=mini, salt=mode)
        ctx.extra.pop("cases_not_run_time_guard", None)
    ctx.deadline = overall
    drop_scratch()

def replay(ctx, case):
    if case.get("mode") == "e2e":
        return run_e2e(ctx, case)
    try:
        run_case(ctx, case, mode="fork" if case.get("mode") == "thr" else None)
    finally:
        drop_scratch()

# --------------------------------------------------------------------------------------- known findings
def _f_gc_empty(sig, case, detail):
    """LocalShare.gc while the store directory exists but holds no repo.json yet (nothing was installed so far)"""
    return sig == "gc-raised-on-store-without-repo.json" and any(op[0] == "gc" for op in case["history"])

def _f_loser(sig, case, detail):
    """the loser of an install race links to the winner's package without being added to pkg.json users"""
    if sig != "unregistered-user-package-collected:lost-install-race":
        return False
    if case.get("mode") == "e2e":
        return True
    fins = [op for op in case["history"] if op[0] == "fin"]
    return len(fins) >= 2 and (any(op[0] == "gc" and not op[2] for op in case["history"]) or case["cfg"].get("quota") is not None)

def _f_typeerror(sig, case, detail):
    """gc(pruneUsed=True, pruneUnused=True) compares the size with a quota of None as soon as a used package is a candidate"""
    if case.get("mode") == "e2e":
        return sig == "gc-raised-TypeError:used+all-unused-without-quota" and case["quota"] is None
    return sig == "gc-raised-TypeError:used+all-unused-without-quota" and case["cfg"].get("quota") is None and \
        any(op[0] == "gc" and op[2] and op[3] for op in case["history"])

def _f_unflushed(sig, case, detail):
    """OpenLocked.__exit__ releases the lock before the rewritten JSON is flushed"""
    return (sig == "metadata-read-between-unlock-and-flush" and case.get("mode") != "seq") or \
        (sig == "e2e-metadata-race" and case.get("mode") == "e2e")       # real processes: the window cannot be told apart

def _f_creation(sig, case, detail):
    """repo.json is created empty (open 'x') and only then locked and written"""
    return sig == "repo-json-read-between-creation-and-lock" and case.get("mode") != "seq"

def _f_dangling(sig, case, detail):
    """sameWorkspace() raises for a user entry whose link dangles (points to a package that was collected / moved)"""
    return sig.endswith("-raised-BuildError:Error inspecting workspace") and "No such file or directory" in detail

def _f_lost_ws(sig, case, detail):
    """race lost at the final rename (workspace already moved away) and useSharedPackage() returns None: no link, no workspace"""
    return sig == "result-lost-after-lost-install-race" and case.get("mode") != "seq"

FINDINGS = {"C15-gc-dangling-user-link": _f_dangling, "C15-lost-race-workspace-destroyed": _f_lost_ws,
            "C15-unlock-before-flush": _f_unflushed, "C15-repo-json-creation-race": _f_creation, "C15-gc-on-empty-store": _f_gc_empty, "C15-install-race-loser-not-registered": _f_loser,
            "C15-gc-used-all-unused-without-quota-typeerror": _f_typeerror}
