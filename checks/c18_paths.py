"""C18 - Package path queries return their declarative meaning."""
import os, re, fnmatch, shutil
from hypothesis import strategies as st

import vlib
from vlib import pkgdump, strlang
from vlib.runner import run_hypothesis, Violation, jhash

PROP = "C18"
LEVEL = "exploration"
RULE = ("Tiny generated recipe sets (3-7 recipes with names from {root,a,ab,a-b,lib-a,lib-b,x.y,c}, DAG dependencies, "
        "provideDeps incl. globs (indirect children), per-dependency environment so that one recipe yields several "
        "package variants with the same name at different depths, consumed and meta variables) and 8-20 queries per "
        "graph from the path grammar (absolute/relative, / and //, '.', all seven axes, exact and wildcard name tests, "
        "predicates nested <=3 with relative/absolute path predicates, string literals with substitution, function "
        "calls, comparisons, ! && ||, parentheses, aliases, the three empty-result modes). Reference: a forward "
        "evaluator written from bobpaths(7) over the package graph walked through getDirectDepSteps/"
        "getIndirectDepSteps (node identity = package id). Oracles: result set equality; every reported path "
        "(getStack) is a real path of the graph that can be decomposed along the query steps; empty-result handling "
        "per query mode (for the one shape the manual leaves open - explicit descendant axis with exact name under "
        "nullglob - either outcome is accepted); malformed queries fail with BobError only. Non-trivial: query with a "
        "predicate whose reference result is neither empty nor all packages, on a graph with a shared node and a "
        "provided dependency; distinct = hash of (graph, query).")
ASSUMPTIONS = ["package names and name tests stay inside [A-Za-z0-9_.+-] and '*' (other glob characters are not part of the documented language)"]
TIME_BUDGET = {"quick": 240, "thorough": 1500}
BATCH = 16

NAMES = ["root", "a", "ab", "a-b", "lib-a", "lib-b", "x.y", "c"]
TESTS = NAMES + ["*", "a*", "*b", "l*a", "lib-*", "*-*", "nosuch", "*x*", "a", "lib-a"]
AXES = ["child", "descendant", "descendant-or-self", "self", "direct-child", "direct-descendant", "direct-descendant-or-self"]
VALS = ["", "0", "1", "x", "GPL", "false"]

# --------------------------------------------------------------------------------------- project
def render(graph, d):
    import yaml
    os.makedirs(os.path.join(d, "recipes"))
    with open(os.path.join(d, "config.yaml"), "w") as f:
        f.write('bobMinimumVersion: "1.0"\n')
    if graph.get("alias"):
        with open(os.path.join(d, "default.yaml"), "w") as f:
            yaml.safe_dump({"alias": graph["alias"]}, f)
    for r in graph["recipes"]:
        doc = {"buildScript": "true", "packageScript": "true"}
        if r["name"] == "root": doc["root"] = True
        deps = []
        for dep in r["deps"]:
            e = {"name": dep["name"]}
            if dep.get("use") is not None: e["use"] = dep["use"]
            if dep.get("env"): e["environment"] = dep["env"]
            deps.append(e if len(e) > 1 else dep["name"])
        if deps: doc["depends"] = deps
        if r.get("provide"): doc["provideDeps"] = r["provide"]
        if r.get("vars"): doc["packageVars"] = r["vars"]
        if r.get("env"): doc["environment"] = r["env"]
        if r.get("meta"): doc["metaEnvironment"] = r["meta"]
        with open(os.path.join(d, "recipes", r["name"] + ".yaml"), "w") as f:
            yaml.safe_dump(doc, f)

# --------------------------------------------------------------------------------------- reference
class G:
    """package graph through the public API"""
    def __init__(self, root_pkg):
        self.nodes = {}
        self.root = self._add(root_pkg)
        # parents
    def _add(self, pkg):
        k = pkg._getId()
        if k in self.nodes:
            return k
        n = {"name": pkg.getName(), "pkg": pkg, "children": {}}
        self.nodes[k] = n
        for s in pkg.getDirectDepSteps():
            p = s.getPackage()
            if p.getName() not in n["children"]:
                n["children"][p.getName()] = (self._add(p), True)
        for s in pkg.getIndirectDepSteps():
            p = s.getPackage()
            if p.getName() not in n["children"]:
                n["children"][p.getName()] = (self._add(p), False)
        return k

    def children(self, k, indirect=True):
        return {c for c, d in self.nodes[k]["children"].values() if indirect or d}

    def descendants(self, ks, indirect=True):
        out, todo = set(), set(ks)
        while todo:
            nxt = set()
            for k in todo:
                nxt |= self.children(k, indirect)
            todo = nxt - out
            out |= nxt
        return out

    def env(self, k):
        pkg = self.nodes[k]["pkg"]
        e = dict(pkg.getPackageStep().getEnv()) if pkg.getPackageStep().isValid() else {}
        e.update(pkg.getMetaEnv())
        return e

def name_ok(test, name):
    if test == "*": return True
    if "*" in test:
        rx = "^" + ".*".join(re.escape(p) for p in test.split("*")) + "$"
        return re.match(rx, name) is not None
    return name == test

def axis_nodes(g, ctx, axis):
    direct_only = axis.startswith("direct-")
    a = axis[7:] if direct_only else axis
    if a == "self": return set(ctx)
    if a == "child": return set().union(*[g.children(k, not direct_only) for k in ctx]) if ctx else set()
    if a == "descendant": return g.descendants(ctx, not direct_only)
    if a == "descendant-or-self": return g.descendants(ctx, not direct_only) | set(ctx)
    raise AssertionError(axis)

class QErr(Exception): pass

def subst_lit(lit, env):
    """substitution inside predicate string literals: unset variables are empty"""
    kind, text = lit
    if kind == "sq":
        return text
    out = re.sub(r"\$\{([A-Za-z0-9_]+)\}|\$([A-Za-z_][A-Za-z0-9_]*)", lambda m: env.get(m.group(1) or m.group(2), ""), text)
    return out

def sval(g, k, e):
    if e[0] == "lit":
        return subst_lit(e[1], g.env(k))
    if e[0] == "call":
        try:
            return strlang.call(e[1], [sval(g, k, a) for a in e[2]], {"sandbox": False, "tools": {}})
        except strlang.RefError:
            raise QErr("function error")
    raise QErr("not a string")

def pred_true(g, k, e):
    t = e[0]
    if t in ("lit", "call"):
        return strlang.truth(sval(g, k, e))
    if t == "path":
        return bool(eval_path(g, e[1], {k}))
    if t == "cmp":
        l, r = sval(g, k, e[2]), sval(g, k, e[3])
        return {"==": l == r, "!=": l != r, "<": l < r, "<=": l <= r, ">": l > r, ">=": l >= r}[e[1]]
    if t == "not": return not pred_true(g, k, e[1])
    if t == "and":
        a = pred_true(g, k, e[1]); b = pred_true(g, k, e[2]); return a and b
    if t == "or":
        a = pred_true(g, k, e[1]); b = pred_true(g, k, e[2]); return a or b
    raise AssertionError(t)

def step_nodes(g, ctx, step):
    axis, test, pred = step
    c = {k for k in axis_nodes(g, ctx, axis) if name_ok(test, g.nodes[k]["name"])}
    if pred is not None:
        c = {k for k in c if pred_true(g, k, pred)}
    return c

def expand(path):
    """-> (absolute, [steps]) with // and . expanded"""
    steps = []
    for sep, stp in path["steps"]:
        if sep == "//":
            steps.append(("descendant-or-self", "*", None))
        steps.append(("self", "*", None) if stp == "." else tuple(stp))
    return path["abs"], steps

def eval_path(g, path, ctx, trace=None):
    absolute, steps = expand(path)
    cur = {g.root} if absolute else set(ctx)
    for i, stp in enumerate(steps):
        cur = step_nodes(g, cur, stp)
        if trace is not None:
            trace.append((i, stp, set(cur)))
        if not cur and trace is None:
            break
    return cur

def all_preds(path):
    out = []
    def walk_pred(e):
        if e[0] == "path": walk_path(e[1])
        elif e[0] in ("not",): walk_pred(e[1])
        elif e[0] in ("and", "or"): walk_pred(e[1]); walk_pred(e[2])
    def walk_path(p):
        for sep, stp in p["steps"]:
            if stp != "." and stp[2] is not None:
                out.append(stp[2]); walk_pred(stp[2])
    walk_path(path)
    return out

def complexity(step):
    """'complex' = wildcard name test or predicate; explicit descendant axes are the shape left open;
    a bare '.' (self@*) is no wildcard match in the sense of the manual"""
    axis, test, pred = step
    if axis == "self" and test == "*" and pred is None: return "no"
    if "*" in test or pred is not None: return "yes"
    if "descendant" in axis: return "open"
    return "no"

# --------------------------------------------------------------------------------------- rendering of queries
def r_lit(lit):
    kind, text = lit
    return "'%s'" % text if kind == "sq" else '"%s"' % text.replace("\\", "\\\\").replace('"', '\\"')

def r_sexpr(e):
    if e[0] == "lit": return r_lit(e[1])
    return "%s(%s)" % (e[1], ", ".join(r_sexpr(a) for a in e[2]))

PREC = {"or": 1, "and": 2, "cmp": 3, "not": 9, "lit": 10, "call": 10, "path": 10}
def r_pred(e, extra):
    it = iter(extra)
    def r(e):
        t = e[0]
        if t in ("lit", "call"): s = r_sexpr(e)
        elif t == "path": s = r_path(e[1], ())
        elif t == "cmp": s = "%s %s %s" % (r_sexpr(e[2]), e[1], r_sexpr(e[3]))
        elif t == "not": s = "!" + par(e[1], 9, False, True)
        else: s = "%s %s %s" % (par(e[1], PREC[t], False), "&&" if t == "and" else "||", par(e[2], PREC[t], True))
        for _ in range(next(it, 0)):
            s = "(" + s + ")"
        return s
    def par(c, p, right, unary=False):
        s = r(c)
        cp = PREC[c[0]]
        if cp < p or (cp == p and right and not unary):
            return "(" + s + ")"
        return s
    return r(e)

def r_step(stp, extra):
    if stp == ".": return "."
    axis, test, pred = stp
    s = test if axis == "child" and extra and extra[0] % 2 == 0 else "%s@%s" % (axis, test)
    if axis == "child" and not extra: s = test
    if pred is not None:
        s += "[%s]" % r_pred(pred, extra[1:])
    return s

def r_path(path, extra):
    out = ""
    for i, (sep, stp) in enumerate(path["steps"]):
        if i == 0:
            out += (sep if path["abs"] else "")
        else:
            out += sep
        out += r_step(stp, list(extra))
    return out

# --------------------------------------------------------------------------------------- the check
def stack_ok(g, stack, path, resid):
    """can the reported stack be decomposed along the query steps, ending in the result package?"""
    # resolve the stack to node ids
    ids = [g.root]
    edges = []
    for nm in stack:
        ch = g.nodes[ids[-1]]["children"]
        if nm not in ch:
            return "hop %r is not a child of %r" % (nm, g.nodes[ids[-1]]["name"])
        ids.append(ch[nm][0]); edges.append(ch[nm][1])
    if ids[-1] != resid:
        return "stack does not end at the reported package"
    absolute, steps = expand(path)
    # (a relative query on the command line starts at the virtual root as well)
    # positions reachable after each step
    pos = {0}
    for axis, test, pred in steps:
        nxt = set()
        direct_only = axis.startswith("direct-")
        a = axis[7:] if direct_only else axis
        for i in pos:
            if a == "self": cand = [i]
            elif a == "child": cand = [i + 1]
            elif a == "descendant": cand = range(i + 1, len(ids))
            else: cand = range(i, len(ids))
            for j in cand:
                if j >= len(ids): continue
                if direct_only and not all(edges[i:j]): continue
                k = ids[j]
                if not name_ok(test, g.nodes[k]["name"]): continue
                if pred is not None and not pred_true(g, k, pred): continue
                nxt.add(j)
        pos = nxt
        if not pos:
            return "the reported path cannot follow the query steps"
    return None if (len(ids) - 1) in pos else "the reported path does not end where the query steps end"

def envelope(g, trace):
    """superset of the node trail ('valid') that Bob's node-level bookkeeping keeps for a query: after every step
    the nodes between the old and the new context nodes are added and the trail is trimmed to the nodes that reach
    the new context nodes inside the trail. Used only to tell the listed finding (a reported path that stays inside
    this trail but skips a step) from any other wrong path."""
    parents, dparents = {}, {}
    for k, n in g.nodes.items():
        for c, d in n["children"].values():
            parents.setdefault(c, set()).add(k)
            if d: dparents.setdefault(c, set()).add(k)
    valid, old = {g.root}, {g.root}
    for _i, (axis, _test, _pred), cur in trace:
        direct_only = axis.startswith("direct-")
        if "descendant" in axis:
            below = g.descendants(old, not direct_only) | old
            anc, todo = set(), set(cur)
            while todo:
                n = todo.pop()
                if n in anc: continue
                anc.add(n)
                todo |= (dparents if direct_only else parents).get(n, set())
            valid |= below & anc
        valid |= cur
        ret, todo = set(), set(cur)
        while todo:
            n = todo.pop()
            if n not in valid or n in ret: continue
            ret.add(n)
            todo |= parents.get(n, set())
        valid &= ret
        old = cur
    return valid

def stack_ids(g, stack):
    ids = [g.root]
    for nm in stack:
        ids.append(g.nodes[ids[-1]]["children"][nm][0])
    return ids

def run_case(ctx, case):
    from bob.errors import BobError
    graph = case["graph"]
    base = ctx.tmpdir()
    try:
        d = os.path.join(base, "p")
        os.makedirs(d)
        render(graph, d)
        with pkgdump.in_dir(d):
            try:
                rs, ps0 = pkgdump.load(d)
                g = G(ps0.getRootPackage())
            except BobError:
                ctx.label("graph-rejected")
                return
            shared = any(sum(1 for n in g.nodes.values() if k in [c for c, _ in n["children"].values()]) > 1 for k in g.nodes)
            provided = any(not dr for n in g.nodes.values() for _, dr in n["children"].values())
            psets = {}
            for qi, q in enumerate(case["queries"]):
                path, mode, extra = q["path"], q["mode"], q.get("parens", [])
                text = r_path(path, extra)
                first = path["steps"][0][1]
                alias = graph.get("alias") or {}
                qtext = text
                if q.get("raw"):
                    qtext = q["raw"]
                if mode not in psets:
                    from bob.input import RecipeSet
                    RecipeSet._queryMode = mode
                    try:
                        psets[mode] = rs.generatePackages(pkgdump._fmt)
                    finally:
                        RecipeSet._queryMode = None
                ps = psets[mode]
                where = "query %r (mode %s)" % (qtext, mode)
                qcase = {"graph": graph, "queries": [q]}
                if q.get("raw"):
                    try:
                        list(ps.queryPackagePath(qtext))
                        ctx.label("raw:accepted")
                    except BobError:
                        ctx.label("raw:rejected")
                    except RecursionError:
                        ctx.fail("internal-exception:RecursionError", "%s raised RecursionError" % where, qcase)
                    except Exception as e:
                        ctx.fail("internal-exception:" + type(e).__name__, "%s raised %s: %s" % (where, type(e).__name__, e), qcase)
                    continue
                # reference (Bob evaluates predicates over all packages, so an erroneous predicate fails the
                # query even if no candidate reaches it: validate every predicate on every node first)
                try:
                    for pr in all_preds(path):
                        for k in g.nodes:
                            pred_true(g, k, pr)
                except (QErr, strlang.Unspecified):
                    ctx.label("reference-unspecified")
                    continue
                try:
                    trace = []
                    ref = eval_path(g, path, {g.root}, trace)
                    ref_err = None
                except (QErr, strlang.Unspecified):
                    ctx.label("reference-unspecified")
                    continue
                # expected empty handling
                expect = "ok"
                seen = "no"
                for i, stp, cur in trace:
                    c = complexity(stp)
                    if c == "yes" or (c == "open" and seen == "no"):
                        seen = "yes" if c == "yes" else "open"
                    if not cur:
                        if mode == "nullset": expect = "ok"
                        elif mode == "nullfail": expect = "error"
                        else: expect = {"no": "error", "yes": "ok", "open": "either"}[seen]
                        break
                try:
                    got_pkgs = list(ps.queryPackagePath(qtext))
                    got = "ok"
                except BobError as e:
                    got = "error"; got_pkgs = []; msg = str(e)
                except Exception as e:
                    ctx.fail("internal-exception:" + type(e).__name__, "%s raised %s: %s" % (where, type(e).__name__, e), qcase)
                has_pred = any(stp != "." and stp[2] is not None for _, stp in path["steps"])
                nontriv = has_pred and 0 < len(ref - {g.root}) < len(g.nodes) - 1 and shared and provided
                ctx.record(jhash([graph, q]), nontriv, ["mode:" + mode, "expect:" + expect, "got:" + got] +
                           (["pred"] if has_pred else []) + (["shared"] if shared else []) + (["provided"] if provided else []),
                           {"query": qtext, "mode": mode, "result": sorted(g.nodes[k]["name"] for k in ref - {g.root})} if qi < 2 else None)
                if expect != "either" and got != expect:
                    ctx.fail("empty-mode:%s-expected-%s" % (mode, expect), "%s: reference says %s (result empties at a step; "
                             "complex so far: %s) but Bob gave %s" % (where, expect, seen, got), qcase)
                if got == "error":
                    continue
                gids = {p._getId() for p in got_pkgs}
                want = ref - {g.root}
                if gids != want:
                    ctx.fail("wrong-result-set", "%s returned %r, reference %r" % (where,
                             sorted("/".join(p.getStack()) for p in got_pkgs),
                             sorted("%s#%s" % (g.nodes[k]["name"], str(k)[-4:]) for k in want)), qcase)
                for p in got_pkgs:
                    why = stack_ok(g, p.getStack(), path, p._getId())
                    if why:
                        kind = "bypass" if ("query steps" in why) else "broken"
                        # (only judged on graphs without provided dependencies: the stack of a provided package runs
                        # through its provider, which need not be part of the trail)
                        if kind == "bypass" and not provided and not set(stack_ids(g, p.getStack())) <= envelope(g, trace):
                            kind = "outside-trail"      # not the listed finding: the path leaves even the node trail
                        ctx.fail("reported-path-off-query:" + kind, "%s reports package path %r: %s" % (where, "/".join(p.getStack()), why), qcase)
                # queryAll: same set
                try:
                    gall_pkgs = list(ps.queryPackagePath(qtext, True))
                    gall = {p._getId() for p in gall_pkgs}
                except BobError:
                    gall = None; gall_pkgs = []
                # (paths reported with queryAll are not judged: see DESIGN.md 8.9)
                if gall is not None and gall != want:
                    ctx.fail("wrong-result-set-queryall", "%s with queryAll returned a different set" % where, qcase)
    finally:
        vlib.rmtree(base)

# --------------------------------------------------------------------------------------- strategies
def graph_st():
    @st.composite
    def mk(draw):
        n = draw(st.integers(3, 7))
        names = ["root"] + draw(st.lists(st.sampled_from(NAMES[1:]), min_size=n - 1, max_size=n - 1, unique=True))
        recipes = []
        for i, nm in enumerate(names):
            later = names[i + 1:]
            deps = []
            if later:
                k = draw(st.integers(1 if i == 0 else 0, min(3, len(later))))
                for dn in draw(st.lists(st.sampled_from(later), min_size=k, max_size=k, unique=True)):
                    deps.append({"name": dn, "use": draw(st.sampled_from([None, None, ["result", "deps"], ["result", "deps"], ["deps"], ["result"]])),
                                 "env": {"V0": draw(st.sampled_from(VALS))} if draw(st.integers(0, 2)) == 0 else None})
            prov = []
            if deps and draw(st.integers(0, 3)) > 0:
                prov = [draw(st.sampled_from([d["name"] for d in deps] + ["*"]))]
            recipes.append({"name": nm, "deps": deps, "provide": prov,
                            "vars": draw(st.sampled_from([[], ["V0"], ["V0", "V1"]])),
                            "env": {"V1": draw(st.sampled_from(VALS))} if draw(st.integers(0, 2)) == 0 else None,
                            "meta": {"M0": draw(st.sampled_from(VALS))} if draw(st.integers(0, 2)) == 0 else None})
        return {"recipes": recipes, "alias": {}}
    return mk()

lit_st = st.one_of(st.sampled_from(["${V0}", "$V1", "${M0}", "${NOPE}", "x", "", "GPL", "1", "0", "a${V0}b"]).map(lambda t: ["lit", ["dq", t]]),
                   st.sampled_from(["x", "", "GPL", "${V0}"]).map(lambda t: ["lit", ["sq", t]]))
sexpr_st = st.recursive(lit_st, lambda ch: st.builds(lambda f, a: ["call", f, a], st.sampled_from(["eq", "ne", "not", "or", "and", "strip", "match"]),
                                                     st.lists(ch, min_size=1, max_size=2)), max_leaves=3)

def path_st(pred_st, maxsteps=3, allow_abs=True):
    step = st.one_of(st.just("."),
                     st.tuples(st.sampled_from(AXES + ["child", "child", "child"]), st.sampled_from(TESTS), st.one_of(st.none(), st.none(), pred_st)).map(list))
    return st.builds(lambda a, first, rest: {"abs": a, "steps": [[("//" if a == 2 else "/"), first]] + rest},
                     st.sampled_from([0, 1, 1, 2] if allow_abs else [0]), step,
                     st.lists(st.tuples(st.sampled_from(["/", "/", "//"]), step).map(list), max_size=maxsteps - 1))

def pred_level(depth):
    inner_path = path_st(st.none() if depth <= 0 else pred_level(depth - 1), 2).map(lambda p: ["path", p])
    base = st.one_of(inner_path, inner_path, sexpr_st,
                     st.builds(lambda o, a, b: ["cmp", o, a, b], st.sampled_from(["==", "!=", "<", ">="]), sexpr_st, sexpr_st))
    return st.recursive(base, lambda ch: st.one_of(st.builds(lambda a: ["not", a], ch),
                                                   st.builds(lambda a, b: ["and", a, b], ch, ch),
                                                   st.builds(lambda a, b: ["or", a, b], ch, ch)), max_leaves=3)

RAW = ["", "/", "//", "a[", "a]", "a[]", "a[(((((((\"x\"))))))))]", "a[\"x\" ==]", "child@", "@a", "a//", "a[b[c[d[e]]]]", "*[!]", "a[\"x\" < \"y\" < \"z\"]",
       "a[!\"x\" == \"y\"]", "a['${V0']", "///", "a/[b]", "nosuch@a", "a[nosuchfun(\"x\")]"]
query_st = st.one_of(
    st.fixed_dictionaries({"path": path_st(pred_level(2), 3),
                           "mode": st.sampled_from(["nullglob", "nullglob", "nullset", "nullfail"]),
                           "parens": st.lists(st.integers(0, 2), max_size=4)}),
    st.fixed_dictionaries({"path": path_st(st.none(), 4),      # longer paths of plain steps: dead-end branches of early steps
                           "mode": st.sampled_from(["nullglob", "nullset"]),
                           "parens": st.just([])}),
    st.fixed_dictionaries({"path": st.just({"abs": 1, "steps": [["/", ["child", "root", None]]]}), "mode": st.just("nullglob"),
                           "raw": st.sampled_from(RAW)}),
)
case_st = st.fixed_dictionaries({"graph": graph_st(), "queries": st.lists(query_st, min_size=8, max_size=20)})

def shard(ctx):
    import sys, warnings
    warnings.filterwarnings("ignore", message="Generating overly large repr")
    sys.setrecursionlimit(1000)
    run_hypothesis(ctx, case_st, lambda c: run_case(ctx, c), ctx.n(6400, 64000), shrink=False, minimize=("queries",))

def replay(ctx, case):
    run_case(ctx, case)

def _f_bypass(sig, case, detail):
    """the set of 'valid' path nodes is tracked per node, not per edge: a result can be reported through a node that
    was visited by an earlier step although that route skips a later step (the result SET is right, the path is a
    real path of the graph, but it does not pass through the intermediate steps)"""
    return sig == "reported-path-off-query:bypass"
FINDINGS = {"C18-reported-path-bypasses-steps": _f_bypass}
