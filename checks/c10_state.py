"""C10 - Workspace state commits atomically and is single-writer."""
import os, sys, io, shutil, types, zlib, struct
from hypothesis import strategies as st

from vlib.runner import run_hypothesis, Violation, jhash

PROP = "C10"
LEVEL = "fault_enumeration"
RULE = ("Generated sequences of state-mutating API calls on bob.state._BobState (result/input hashes, directory "
        "states, variant ids, by-name directories, attic, layers, storage paths, Jenkins, build state, async "
        "brackets, resetWorkspaceState) grouped into 1-3 invocations. The run is traced at file-operation "
        "granularity (create, every write, close, rename, fsync, unlink). For EVERY prefix of the trace a kill image "
        "(exact file-system state) is restarted: start-up must not raise and the observable snapshot (all public "
        "getters) must be one of the snapshots between the end of the last completed invocation and the call in "
        "progress. Power-loss images (unsynced file contents truncated at any "
        "length / zero-filled / bit-flipped, last rename undone) must recover a snapshot between the end of the "
        "last completed invocation and the last saved one. A second instance while one is alive must be refused "
        "and change nothing. Non-trivial: crash point inside an invocation that performed >=2 saves, between a "
        "write to the uncommitted file and the commit; distinct = (sequence, prefix, garble).")
ASSUMPTIONS = ["power loss is modelled: data not fsync'ed since its last write may be arbitrary, the last rename may be lost",
               "garbles that keep the Adler-32 valid by chance are discarded (counted)"]
TIME_BUDGET = {"quick": 200, "thorough": 1200}

KEYS = [b"k0", b"k1", b"k2"]
PATHS = ["work/a/1", "work/b/1", "dev/src/x/1/workspace"]
BASES = ["dev/dist/a", "dev/src/b"]
JNAMES = ["j0", "j1"]
JOBS = ["job-a", "job-b"]

# ---------------------------------------------------------------------------------------
class Tracer:
    """records the file-system state after every file operation done by bob.state"""
    def __init__(self, d):
        self.dir = d
        self.images = []
        self.ino = {}            # name -> inode id
        self.unsynced = set()    # inode ids with data not fsynced since last write
        self.next_ino = 1
        self.event = 0           # index of the API event in progress
        self.saved_event = 0     # event whose state is in the newest file (kill oracle)
        self.lo_event = 0        # end of last completed (committed) invocation
        self.saves_in_inv = 0
        self.enabled = True

    def files(self):
        out = {}
        for n in os.listdir(self.dir):
            p = os.path.join(self.dir, n)
            if os.path.isfile(p):
                with open(p, "rb") as f:
                    out[n] = f.read()
        return out

    def op(self, kind, *args, undo=None):
        if not self.enabled:
            return
        fs = self.files()
        self.images.append({
            "k": len(self.images), "kind": kind, "args": args, "files": fs,
            "unsynced": sorted(n for n in fs if self.ino.get(n) in self.unsynced),
            "event": self.event, "saved": self.saved_event, "lo": self.lo_event,
            "saves_in_inv": self.saves_in_inv, "undo": undo,
        })

def install(tr):
    """wrap the primitives bob.state uses; returns an undo function"""
    import bob.state as S
    real_open = open
    real_replace = S.replacePath
    real_os = S.os

    class TFile:
        def __init__(self, path, mode):
            self.name = path
            self.f = real_open(path, mode, buffering=0)
            n = os.path.basename(path)
            tr.ino[n] = tr.next_ino; tr.next_ino += 1
            tr.unsynced.add(tr.ino[n])
            tr.op("create", n)
        def write(self, data):
            r = self.f.write(data)
            tr.unsynced.add(tr.ino[os.path.basename(self.name)])
            tr.op("write", os.path.basename(self.name), len(data))
            return r
        def fileno(self): return self.f.fileno()
        def close(self):
            self.f.close(); tr.op("close", os.path.basename(self.name))
        def __enter__(self): return self
        def __exit__(self, *a): self.close(); return False

    def t_open(path, mode="r", *a, **kw):
        if "w" in mode and os.path.basename(path).startswith(".bob-state"):
            return TFile(path, mode)
        return real_open(path, mode, *a, **kw)

    def t_replace(src, dst):
        s, d = os.path.basename(src), os.path.basename(dst)
        before = tr.files()
        real_replace(src, dst)
        if s in tr.ino:
            tr.ino[d] = tr.ino.pop(s)
        if d == ".bob-state.pickle.new":
            tr.saved_event = tr.event
            tr.saves_in_inv += 1
        if d == ".bob-state.pickle":
            if tr.kind_of_event == "finalize":
                tr.lo_event = tr.saved_event = tr.event
        tr.op("replace", s, d, undo=before)

    class OSProxy:
        def __getattr__(self, n):
            return getattr(real_os, n)
        def fsync(self, fd):
            real_os.fsync(fd)
            try:
                n = os.path.basename(os.readlink("/proc/self/fd/%d" % fd))
            except OSError:
                n = None
            if n in tr.ino:
                tr.unsynced.discard(tr.ino[n])
            tr.op("fsync", n)
        def unlink(self, p):
            real_os.unlink(p)
            tr.ino.pop(os.path.basename(p), None)
            tr.op("unlink", os.path.basename(p))
        def open(self, p, flags, *a):
            fd = real_os.open(p, flags, *a)
            if flags & real_os.O_CREAT:
                tr.op("lock", os.path.basename(p))
            return fd

    S.open = t_open
    S.replacePath = t_replace
    S.os = OSProxy()
    def undo():
        del S.open
        S.replacePath = real_replace
        S.os = real_os
    return undo

# ---------------------------------------------------------------------------------------
def snapshot(s, jnames_known):
    """observable state through the public getters"""
    out = []
    out.append(("results", [s.getResultHash(k) for k in KEYS + [p.encode() for p in PATHS]]))
    out.append(("inputs", [s.getInputHashes(p) for p in PATHS]))
    out.append(("dirs", sorted(s.getDirectories()), [s.getDirectoryState(p, False) for p in PATHS]))
    out.append(("variants", [s.getVariantId(p) for p in PATHS]))
    out.append(("names", sorted(map(repr, s.getAllNameDirectores())),
                [s.getExistingByNameDirectory(k) for k in KEYS]))
    out.append(("attic", sorted(s.getAtticDirectories()), [s.getAtticDirectoryState(p) for p in PATHS]))
    out.append(("layers", sorted(s.getLayers()), [s.getLayerState(p) for p in PATHS]))
    out.append(("storage", [s.getStoragePath(p) for p in PATHS]))
    js = sorted(s.getAllJenkins())
    jd = []
    for j in js:
        jobs = sorted(s.getJenkinsAllJobs(j))
        jd.append((j, s.getJenkinsConfig(j).dump(), [(job, s.getJenkinsJobConfig(j, job)) for job in jobs]))
    out.append(("jenkins", jd))
    out.append(("build", s.getBuildState()))
    return repr(out)

def apply_call(s, op, uniq):
    """one API call; indices resolved modulo; returns event kind"""
    from bob.state import JenkinsConfig
    k = op[0]
    u = b"v%d" % uniq
    if k == "result": s.setResultHash(KEYS[op[1] % 3], u)
    elif k == "presult": s.setResultHash(PATHS[op[1] % 3].encode(), u)
    elif k == "input": s.setInputHashes(PATHS[op[1] % 3], [u, u])
    elif k == "delinput": s.delInputHashes(PATHS[op[1] % 3])
    elif k == "dir": s.setDirectoryState(PATHS[op[1] % 3], [u] if op[2] % 2 else u)
    elif k == "deldir": s.delDirectoryState(PATHS[op[1] % 3])
    elif k == "reset": s.resetWorkspaceState(PATHS[op[1] % 3], u if op[2] % 2 else None)
    elif k == "variant": s.setVariantId(PATHS[op[1] % 3], u)
    elif k == "byname": s.getByNameDirectory(BASES[op[1] % 2], KEYS[op[2] % 3], bool(op[1] % 2))
    elif k == "attic": s.setAtticDirectoryState(PATHS[op[1] % 3], {"k": u})
    elif k == "delattic": s.delAtticDirectoryState(PATHS[op[1] % 3])
    elif k == "layer": s.setLayerState(PATHS[op[1] % 3], u)
    elif k == "dellayer": s.delLayerState(PATHS[op[1] % 3])
    elif k == "storage": s.setStoragePath(PATHS[op[1] % 3], PATHS[op[2] % 3] if op[2] % 4 else "/st/%d" % uniq)
    elif k == "build": s.setBuildState({"wasRun": {u: ("p", False)}, "predictedBuidId": {}})
    elif k == "addjenkins": s.addJenkins(JNAMES[op[1] % 2], JenkinsConfig("http://h%d/" % uniq, "uuid%d" % uniq))
    elif k == "deljenkins": s.delJenkins(JNAMES[op[1] % 2])
    elif k in ("addjob", "setjob", "deljob", "jbyname", "jconfig"):
        j = JNAMES[op[1] % 2]
        if j not in s.getAllJenkins(): return
        job = JOBS[op[2] % 2]
        if k == "addjob": s.addJenkinsJob(j, job, {"x": u})
        elif k == "jbyname": s.getJenkinsByNameDirectory(j, BASES[op[2] % 2], KEYS[op[2] % 3])
        elif k == "jconfig":
            c = s.getJenkinsConfig(j); c.prefix = "p%d" % uniq; s.setJenkinsConfig(j, c)
        elif job in s.getJenkinsAllJobs(j):
            if k == "setjob": s.setJenkinsJobConfig(j, job, {"y": u})
            else: s.delJenkinsJob(j, job)
    else:
        raise AssertionError(k)

def garbles(data, choices):
    """generated corruptions of an unsynced file content"""
    out = []
    for c in choices:
        kind, a, b = c
        n = len(data)
        if kind == 0:
            out.append(("trunc", data[:a % (n + 1)]))
        elif kind == 1:
            cut = a % (n + 1)
            out.append(("zerotail", data[:cut] + b"\0" * (n - cut)))
        elif kind == 2 and n:
            i = a % n
            out.append(("bitflip", data[:i] + bytes([data[i] ^ (1 << (b % 8))]) + data[i+1:]))
        elif kind == 3:
            out.append(("empty", b""))
    return out

def adler_ok(data):
    return len(data) >= 4 and struct.pack("=L", zlib.adler32(data[:-4])) == data[-4:]

def recover(ctx, base, files, n):
    """fresh start on an image -> snapshot or ('raised', what)"""
    from bob.state import _BobState
    d = os.path.join(base, "r%d" % n)
    os.makedirs(d)
    for name, data in files.items():
        if name == ".bob-state.lock":       # the user removes the stale lock of a killed instance
            continue
        with open(os.path.join(d, name), "wb") as f:
            f.write(data)
    cwd = os.getcwd()
    os.chdir(d)
    so, se = sys.stdout, sys.stderr
    sys.stdout = sys.stderr = io.StringIO()
    try:
        try:
            s = _BobState()
        except BaseException as e:
            return ("raised", "%s: %s" % (type(e).__name__, e))
        snap = snapshot(s, None)
        s.finalize()
        return ("ok", snap)
    finally:
        sys.stdout, sys.stderr = so, se
        os.chdir(cwd)
        shutil.rmtree(d, ignore_errors=True)

def run_case(ctx, case):
    from bob.state import _BobState
    from bob.errors import ParseError
    base = ctx.tmpdir()
    work = os.path.join(base, "w")
    os.makedirs(work)
    cwd = os.getcwd()
    os.chdir(work)
    tr = Tracer(work)
    undo = install(tr)
    snaps = []            # snapshot after every API event
    so, se = sys.stdout, sys.stderr
    try:
        sys.stdout = sys.stderr = io.StringIO()
        uniq = 0
        for inv in case["invocations"]:
            tr.kind_of_event = "construct"; tr.saves_in_inv = 0
            s = _BobState()
            snaps.append(snapshot(s, None)); tr.event += 1
            depth = 0
            for op in inv:
                tr.kind_of_event = "call"
                uniq += 1
                if op[0] == "async":
                    s.setAsynchronous(); depth += 1
                elif op[0] == "sync":
                    if depth: s.setSynchronous(); depth -= 1
                elif op[0] == "second":
                    tr.enabled = False
                    before = tr.files()
                    try:
                        s2 = _BobState()
                        s2.finalize()
                        ok = False
                    except ParseError:
                        ok = True
                    after = tr.files()
                    tr.enabled = True
                    if not ok:
                        ctx.fail("second-instance-accepted", "a second _BobState() was constructed while the first is alive", case)
                    if before != after:
                        ctx.fail("second-instance-changed-files", "refused second instance changed %r" %
                                 sorted(k for k in set(before) | set(after) if before.get(k) != after.get(k)), case)
                else:
                    apply_call(s, op, uniq)
                snaps.append(snapshot(s, None)); tr.event += 1
            while depth:
                tr.kind_of_event = "call"
                s.setSynchronous(); depth -= 1
                snaps.append(snapshot(s, None)); tr.event += 1
            tr.kind_of_event = "finalize"
            s.finalize()
            # the invocation is complete once finalize() returned, whatever it did on disk
            tr.lo_event = tr.saved_event = tr.event
            tr.op("finalize-returned")
            snaps.append(snaps[-1]); tr.event += 1
    finally:
        sys.stdout, sys.stderr = so, se
        undo()
        os.chdir(cwd)
    # a fresh start after the last finalize sees the final state
    images = tr.images
    n = 0
    nontriv = 0
    labels = set()
    sel = case.get("prefixes")
    for im in images:
        if sel is not None and len(images) > 60 and (im["k"] * 7919 + sel) % len(images) >= 60:
            continue
        k = im["k"]
        # the property: one of the saved snapshots, not older than the end of the last completed
        # invocation (lo), not newer than the call in progress
        allowed = set(snaps[im["lo"]: im["event"] + 1])
        # -- kill image
        n += 1
        r = recover(ctx, base, im["files"], n)
        inside = im["saves_in_inv"] >= 2 and ".bob-state.pickle.new" in im["files"]
        if inside: nontriv += 1
        desc = "after op %d %s%r (event %d)" % (k, im["kind"], im["args"], im["event"])
        if r[0] == "raised":
            ctx.fail("kill:startup-raises", "%s: start-up raised %s" % (desc, r[1]), dict(case, at=k))
        elif r[1] not in allowed:
            which = [i for i, sn in enumerate(snaps) if sn == r[1]]
            ctx.fail("kill:wrong-snapshot", "%s: recovered snapshot is %s; allowed: events %d..%d" %
                     (desc, ("that of event(s) %r" % which[:3]) if which else "none of the saved snapshots (mixture)",
                      im["lo"], im["event"]), dict(case, at=k))
        elif r[1] != snaps[im["saved"]]:
            ctx.label("info:kill-image-not-latest-save")
        # -- power-loss images
        variants = []
        for name in im["unsynced"]:
            for gk, gdata in garbles(im["files"][name], case["garbles"]):
                if gdata == im["files"][name]:
                    continue
                if name.endswith(".new") and adler_ok(gdata):
                    ctx.label("garble-keeps-checksum")
                    continue
                f2 = dict(im["files"]); f2[name] = gdata
                variants.append(("%s of %s" % (gk, name), f2))
        if im["undo"] is not None:
            variants.append(("last rename undone", im["undo"]))
            for name in im["unsynced"]:
                src = im["args"][0]
                if src in im["undo"]:
                    for gk, gdata in garbles(im["undo"][src], case["garbles"][:2]):
                        if src.endswith(".new") and adler_ok(gdata): continue
                        f2 = dict(im["undo"]); f2[src] = gdata
                        variants.append(("last rename undone + %s of %s" % (gk, src), f2))
                break
        for what, files in variants:
            n += 1
            labels.add("powerloss")
            r = recover(ctx, base, files, n)
            if r[0] == "raised":
                ctx.fail("powerloss:startup-raises", "%s, %s: start-up raised %s" % (desc, what, r[1]), dict(case, at=k, what=what))
            elif r[1] not in allowed:
                which = [i for i, sn in enumerate(snaps) if sn == r[1]]
                ctx.fail("powerloss:wrong-snapshot", "%s, %s: recovered %s; allowed events %d..%d" %
                         (desc, what, ("event(s) %r" % which[:3]) if which else "a mixture", im["lo"], im["event"]),
                         dict(case, at=k, what=what))
    ctx.extra["crash_images"] = ctx.extra.get("crash_images", 0) + n
    ctx.record(jhash(case), nontriv > 0, ["invocations:%d" % len(case["invocations"])] + sorted(labels) +
               (["all-prefixes"] if sel is None or len(images) <= 60 else ["sampled-prefixes"]),
               {"invocations": case["invocations"], "fs_ops": len(images), "crash_images": n})
    shutil.rmtree(base, ignore_errors=True)

I = st.integers(0, 11)
call_st = st.one_of(
    [st.tuples(st.just(k), I, I).map(list) for k in
     ["result", "presult", "input", "delinput", "dir", "deldir", "reset", "variant", "byname", "attic",
      "delattic", "layer", "dellayer", "storage", "build", "addjenkins", "deljenkins", "addjob", "setjob",
      "deljob", "jbyname", "jconfig"]] +
    [st.just(["async"]), st.just(["sync"]), st.just(["second"])])
G = st.tuples(st.integers(0, 3), st.integers(0, 5000), st.integers(0, 7)).map(list)

def case_strategy(quick):
    return st.fixed_dictionaries({
        "invocations": st.lists(st.lists(call_st, min_size=1, max_size=8 if quick else 14), min_size=1, max_size=3),
        "garbles": st.lists(G, min_size=2, max_size=4),
        "prefixes": st.one_of(st.none(), st.integers(0, 1000)) if quick else st.none(),
    })

def shard(ctx):
    run_hypothesis(ctx, case_strategy(ctx.quick()), lambda c: run_case(ctx, c), ctx.n(1600, 20000))

def replay(ctx, case):
    run_case(ctx, case)

FINDINGS = {}
